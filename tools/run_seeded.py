#!/usr/bin/env python3
"""Run the registered checks against the seeded changes kept under /verif/seeded/<id>/.

  tools/run_seeded.py [id ...]      (default: all)

For each seeded change: copy /repo/include to a scratch directory outside /repo and /verif, apply patch.diff there,
run the quick check of every property named in meta.json with VERIF_REPO=<scratch> (evidence files are not rewritten),
and record exit status + violation keys in seeded/results.json. Equivalent to `git -C /repo apply` / run / `checkout -- .`
but never touches /repo, so it can run while other checks use the real tree.
"""
import sys, os, json, shutil, subprocess, tempfile, time

VERIF = os.path.dirname(os.path.dirname(os.path.abspath(__file__)))
SEEDED = os.path.join(VERIF, 'seeded')


def run(sid):
    d = os.path.join(SEEDED, sid)
    meta = json.load(open(os.path.join(d, 'meta.json')))
    scratch = tempfile.mkdtemp(prefix='frigg_seeded_')
    try:
        shutil.copytree('/repo/include', os.path.join(scratch, 'include'))
        p = subprocess.run(['patch', '-p1', '-s', '-d', scratch, '-i', os.path.join(d, 'patch.diff')], capture_output=True, text=True)
        if p.returncode != 0:
            return {'id': sid, 'status': 'patch-does-not-apply', 'detail': (p.stdout + p.stderr)[-500:]}
        out = {'id': sid, 'property': meta['property'], 'checks': {}}
        caught = False
        for prop in meta.get('run_checks', [meta['property']]):
            env = dict(os.environ)
            env.update({'VERIF_REPO': scratch, 'VERIF_NO_EVIDENCE': '1', 'VERIF_JOBS': os.environ.get('VERIF_JOBS', '8')})
            t = time.time()
            tier = os.environ.get('SEEDED_TIER', 'quick')
            r = subprocess.run([os.path.join(VERIF, 'check'), prop, tier], capture_output=True, text=True, env=env, cwd=VERIF)
            keys = [l.strip()[:300] for l in r.stdout.splitlines() if l.strip().startswith('key=')]
            out['checks'][prop] = {'rc': r.returncode, 'wall_s': round(time.time() - t, 1), 'keys': keys[:5]}
            if r.returncode == 1:
                caught = True
            if r.returncode == 2:
                out['checks'][prop]['tail'] = (r.stdout + r.stderr)[-800:]
        out['status'] = 'caught' if caught else 'MISSED'
        return out
    finally:
        shutil.rmtree(scratch, ignore_errors=True)


def main():
    ids = sys.argv[1:] or sorted(x for x in os.listdir(SEEDED) if os.path.isdir(os.path.join(SEEDED, x)))
    path = os.path.join(SEEDED, 'results.json')
    old = {}
    if os.path.exists(path):
        old = {r['id']: r for r in json.load(open(path))}
    for sid in ids:
        r = run(sid)
        print('%-8s %-28s %s' % (r['status'], sid, ' '.join('%s:rc=%s(%ss)' % (k, v['rc'], v['wall_s']) for k, v in r.get('checks', {}).items()) or r.get('detail', '')), flush=True)
        old[sid] = r
    json.dump(sorted(old.values(), key=lambda r: r['id']), open(path, 'w'), indent=1)


if __name__ == '__main__':
    main()
