#!/bin/bash
# usage: tools/confirm_seeded.sh <worktree> <seeded-id> <property> [extra g++ flags]
# Confirms a sub-agent's seeded change (test suite passes with it, demo fails with it and passes without it)
# and stores it under /verif/seeded/<seeded-id>/.
set -u
WT=$1; ID=$2; PROP=$3; shift 3; FLAGS="$*"
cd "$WT" || exit 2
git diff -- include > /tmp/confirm_$$.diff
[ -s /tmp/confirm_$$.diff ] || { echo "no change in working tree"; exit 2; }
# 1. test suite with the change
rm -rf _build; meson setup _build -Dbuild_tests=enabled >/dev/null 2>&1
TESTS=$(meson test -C _build 2>&1 | grep -E "^Ok:|^Fail:" | tr -s ' ' | tr '\n' ' ')
# 2. demo with the change
g++ -std=c++20 -g -O1 -I include demo.cpp -o demo_with -pthread $FLAGS 2>/tmp/confirm_$$.err || { echo "demo does not build with change"; cat /tmp/confirm_$$.err | head; exit 2; }
timeout 120 ./demo_with >/tmp/confirm_$$.with 2>&1; RC_WITH=$?
# 3. demo without the change
git apply -R /tmp/confirm_$$.diff
g++ -std=c++20 -g -O1 -I include demo.cpp -o demo_without -pthread $FLAGS 2>/tmp/confirm_$$.err; B=$?
timeout 120 ./demo_without >/tmp/confirm_$$.without 2>&1; RC_WITHOUT=$?
git apply /tmp/confirm_$$.diff
rm -rf _build demo_with demo_without
echo "tests-with-change: $TESTS | demo with change rc=$RC_WITH | demo without change rc=$RC_WITHOUT (build $B)"
if [[ "$TESTS" == *"Ok: 1"* && "$TESTS" == *"Fail: 0"* && $RC_WITH -ne 0 && $RC_WITHOUT -eq 0 ]]; then
  D=/verif/seeded/$ID; mkdir -p $D
  cp /tmp/confirm_$$.diff $D/patch.diff; cp demo.cpp $D/demo.cpp; cp NOTES.md $D/agent_notes.md 2>/dev/null
  python3 - "$D" "$ID" "$PROP" "$TESTS" "$RC_WITH" "$RC_WITHOUT" "$FLAGS" <<'PY'
import sys, json, re
d, sid, prop, tests, rcw, rcwo, flags = sys.argv[1:8]
notes = open(d + '/agent_notes.md').read() if __import__('os').path.exists(d + '/agent_notes.md') else ''
meta = {'id': sid, 'property': prop, 'run_checks': [prop],
        'needs_to_manifest': '(see agent_notes.md)',
        'confirmed': {'test_suite_with_change': tests.strip(), 'demo_with_change_rc': int(rcw), 'demo_without_change_rc': int(rcwo),
                      'demo_build': 'g++ -std=c++20 -g -O1 -I include demo.cpp -o demo -pthread ' + flags,
                      'how': 'tools/confirm_seeded.sh in a scratch worktree of /repo (meson test with the change; demo built and run with and without it)'}}
json.dump(meta, open(d + '/meta.json', 'w'), indent=1)
PY
  echo "stored in $D"
else
  echo "NOT CONFIRMED"; tail -5 /tmp/confirm_$$.with; tail -3 /tmp/confirm_$$.without
fi
rm -f /tmp/confirm_$$.*
