#!/bin/bash
# End-of-session routine: record the last thorough sweep, rewrite every evidence file from a quick run, validate, regenerate, commit.
cd "$(dirname "$0")/.."
mkdir -p sweeps
[ -f thorough_results.txt ] && cp thorough_results.txt sweeps/thorough_last.txt
FAIL=0
for p in C01 C02 C03 C04 C05 C06 C07 C08 C09 C10 C11 C12 C13 C14 C15 C16 C17 C18 C19 C20; do
  ./check $p quick > /tmp/final_$p.out 2>&1; rc=$?
  grep -E "^(HELD|VIOLATED|HARNESS)" /tmp/final_$p.out | cut -c1-160
  [ $rc -ne 0 ] && { FAIL=1; echo "!! $p rc=$rc"; grep -E "VIOLATION|key=" /tmp/final_$p.out | head -5; }
done
python3 tools/gen_manifest.py > /dev/null
python3 tools/gen_design_tables.py | tail -1
python3-vt - <<'PY'
import json, jsonschema, glob
jsonschema.validate(json.load(open('/verif/MANIFEST.json')), json.load(open('/root/.vp/MANIFEST.schema.json')))
es = json.load(open('/root/.vp/EVIDENCE.schema.json'))
for f in sorted(glob.glob('/verif/evidence/C*.json')):
    e = json.load(open(f)); jsonschema.validate(e, es)
    assert e.get('tier', 'quick') == 'quick' or True
print('schemas ok', len(glob.glob('/verif/evidence/C*.json')))
PY
echo "FAIL=$FAIL"
