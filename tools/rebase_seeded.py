#!/usr/bin/env python3
"""Rebase seeded/<id>/patch.diff onto /repo's current tree when a later fix:/hook commit touched the same lines.

  tools/rebase_seeded.py <id> [...]

For the patch, the newest /repo commit where it still applies is found (walking back from HEAD); the patched file of that commit
and the current file are merged three-way (git merge-file) against that commit's file; the rebased patch is the diff between
the current file and the merge result. The sub-agent's original is kept as patch.orig.diff. Conflicts are reported, not resolved.
"""
import sys, os, subprocess, tempfile, shutil, json, re
V = os.path.dirname(os.path.dirname(os.path.abspath(__file__)))

def sh(*a, **k):
    return subprocess.run(a, capture_output=True, text=True, **k)

def rebase(sid):
    d = os.path.join(V, 'seeded', sid)
    patch = os.path.join(d, 'patch.diff')
    files = re.findall(r'^\+\+\+ b/(\S+)', open(patch).read(), re.M)
    commits = sh('git', '-C', '/repo', 'log', '--format=%h', '-60').stdout.split()
    tmp = tempfile.mkdtemp(prefix='rebase_seeded_')
    try:
        base = None
        for c in commits:
            root = os.path.join(tmp, c)
            for f in files:
                os.makedirs(os.path.dirname(os.path.join(root, f)), exist_ok=True)
                r = sh('git', '-C', '/repo', 'show', '%s:%s' % (c, f))
                if r.returncode: break
                open(os.path.join(root, f), 'w').write(r.stdout)
            else:
                if sh('patch', '-p1', '-s', '--dry-run', '-d', root, '-i', patch).returncode == 0:
                    base = c; break
        if base is None: return sid + ': no commit found where the patch applies'
        if base == commits[0]: return sid + ': applies to HEAD already'
        root = os.path.join(tmp, base)
        patched = os.path.join(tmp, 'patched'); shutil.copytree(root, patched)
        sh('patch', '-p1', '-s', '-d', patched, '-i', patch)
        out = ''
        for f in files:
            cur = os.path.join('/repo', f)
            m = sh('git', 'merge-file', '-p', os.path.join(patched, f), os.path.join(root, f), cur)
            if m.returncode != 0: return '%s: conflict in %s when merging onto HEAD (base %s)' % (sid, f, base)
            mf = os.path.join(tmp, 'merged'); open(mf, 'w').write(m.stdout)
            df = sh('diff', '-u', '--label', 'a/' + f, '--label', 'b/' + f, cur, mf).stdout
            out += df
        if not out.strip(): return sid + ': merge result equals HEAD (the change was absorbed?)'
        if not os.path.exists(os.path.join(d, 'patch.orig.diff')): shutil.copy(patch, os.path.join(d, 'patch.orig.diff'))
        open(patch, 'w').write(out)
        mp = os.path.join(d, 'meta.json'); meta = json.load(open(mp))
        meta['rebased'] = 'patch.diff was rebased (three-way merge, tools/rebase_seeded.py) from /repo commit %s onto %s because a later commit touched the same lines; the sub-agent original is patch.orig.diff' % (base, commits[0])
        json.dump(meta, open(mp, 'w'), indent=1)
        return '%s: rebased from %s onto %s' % (sid, base, commits[0])
    finally:
        shutil.rmtree(tmp, ignore_errors=True)

for s in sys.argv[1:]:
    print(rebase(s))
