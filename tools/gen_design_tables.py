#!/usr/bin/env python3
"""Regenerates the generated part of DESIGN.md (between the GENERATED markers): known findings, mutation kill matrix, seeded changes."""
import json, os, subprocess
V = os.path.dirname(os.path.dirname(os.path.abspath(__file__)))
out = []
kf = json.load(open(os.path.join(V, 'known_findings.json')))['findings']
# 12.0 as-built numbers: quick tier from the committed evidence files, thorough tier from the last recorded sweep
import re, sys
sys.path.insert(0, os.path.join(V, 'tools'))
try:
    from registry import CHECKS
except Exception:
    CHECKS = {}
sweep = {}
older = set()
for fname, is_old in (('thorough_third_partial.txt', True), ('thorough_last.txt', False)):
    sp = os.path.join(V, 'sweeps', fname)
    if os.path.exists(sp):
        for ln in open(sp):
            m = re.match(r'(C\d\d) rc=(\d+) (\d+)s .*?(HELD|VIOLATED) property=\S+ tier=thorough seed=(\d+) evaluations=(\d+) distinct=(\d+)', ln)
            if m:
                sweep[m.group(1)] = m.groups()
                (older.add if is_old else older.discard)(m.group(1))
out.append('### 12.0 Checks as built (measured)\n')
out.append('Quick numbers are those of the committed `evidence/<id>.json`; thorough numbers come from the last sweep (`sweeps/thorough_last.txt`, one run per property, warm build cache; parts of it ran while seeded-change runs, the mutation self-test and a multi-seed soak shared the 16 cores, so walls are not comparable between rows).\n')
out.append('| property | sanitizer builds | quick: evaluations / distinct / wall | thorough: verdict, evaluations / distinct / wall |\n|---|---|---|---|')
for pid in sorted(k for k in CHECKS if re.fullmatch(r'C\d\d', k)):
    ep = os.path.join(V, 'evidence', pid + '.json')
    q = '-'
    fl = ''
    if os.path.exists(ep):
        e = json.load(open(ep))
        c = e.get('coverage', {})
        fl = '+'.join(c.get('flavours', []))
        if e.get('tier') == 'quick':
            q = '%s / %s / %ss' % (c.get('evaluations'), c.get('distinct_nontrivial'), e.get('wall_s'))
        else:
            q = '(evidence file currently holds a %s run)' % e.get('tier')
    t = '-'
    if pid in sweep:
        g = sweep[pid]
        t = '%s, %s / %s / %ss' % (g[3], g[5], g[6], g[2]) + (' (sweep of 07:11-10:40 UTC, before the additions of rounds 11-14; the run with the final drivers was cut short, see below)' if pid in older else '')
    out.append('| %s | %s | %s | %s |' % (pid, fl, q, t))
out.append('')
out.append('### 12.1 Defects of managarm/frigg found by the monitors\n')
out.append('| property | status | commit | what failed |\n|---|---|---|---|')
for f in kf:
    out.append('| %s | %s | %s | %s |' % (f['property'], f['status'], f.get('commit', '-'), f['what'].replace('|', '\\|').replace('fixed: property=%s %s ' % (f['property'], f.get('commit', '')), '')))
out.append('')
p = os.path.join(V, 'selftest', 'results.json')
if os.path.exists(p):
    rs = json.load(open(p))
    out.append('### 12.2 Mutation self-test (selftest/mutants.py; every mutant compiles and passes the 19 baseline tests)\n')
    killed = sum(1 for r in rs if r['status'] == 'killed')
    out.append('%d mutants, %d killed by the quick check of the listed property, %d expected misses, %d missed.\n' % (len(rs), killed, sum(1 for r in rs if r['status'] == 'expected-miss'), sum(1 for r in rs if r['status'] not in ('killed', 'expected-miss'))))
    out.append('| mutant | result | checks (exit status) | first violation key |\n|---|---|---|---|')
    for r in rs:
        checks = ' '.join('%s:%s' % (k, v['rc']) for k, v in r.get('results', {}).items())
        key = ''
        for v in r.get('results', {}).values():
            if v.get('keys'):
                key = v['keys'][0].split(' :: ')[0].replace('key=', '')
                break
        out.append('| %s | %s | %s | `%s` |' % (r['name'], r['status'] + (' (' + r['why'][:120] + ')' if r.get('why') else ''), checks, key[:110]))
    out.append('')
p = os.path.join(V, 'seeded', 'results.json')
if os.path.exists(p):
    rs = json.load(open(p))
    out.append('### 12.3 Seeded changes written by independent sub-agents (seeded/<id>/)\n')
    out.append('Each sub-agent got only the text of one property and its own scratch worktree. Every change below was confirmed (test suite passes with it; its demo fails with it and passes without it) before being kept.\n')
    out.append('| seeded change | property | needs to manifest | caught by (quick check) | violation key |\n|---|---|---|---|---|')
    for r in rs:
        meta = json.load(open(os.path.join(V, 'seeded', r['id'], 'meta.json')))
        key = ''
        for v in r.get('checks', {}).values():
            if v.get('keys'):
                key = v['keys'][0].split(' :: ')[0].replace('key=', '')
                break
        out.append('| %s | %s | %s | %s | `%s` |' % (r['id'], r.get('property', ''), meta.get('needs_to_manifest', '').replace('|', '\\|'), ' '.join('%s (rc=%s, %ss)' % (k, v['rc'], v['wall_s']) for k, v in r.get('checks', {}).items()) + (' — missed by the first version of the check, which was then strengthened (history in meta.json)' if meta.get('history') else ''), key[:100]))
    out.append('')
text = '\n'.join(out)
dp = os.path.join(V, 'DESIGN.md')
s = open(dp).read()
a, b = '<!-- GENERATED:BEGIN -->', '<!-- GENERATED:END -->'
if a in s:
    s = s[:s.index(a) + len(a)] + '\n' + text + '\n' + s[s.index(b):]
else:
    s += '\n' + a + '\n' + text + '\n' + b + '\n'
open(dp, 'w').write(s)
print('DESIGN.md tables regenerated')
