"""Parse ASan / UBSan / TSan report blocks from a driver's stderr into violation keys.

key = <tool>:<report class>:<innermost frigg frame as file.hpp:function>   (TSan: unordered pair of frames)
Line numbers and addresses are not part of a key.
"""
import re

FRAME = re.compile(r'^\s*#(\d+)\s+(?:0x[0-9a-f]+\s+)?(?:in\s+)?(.*?)\s+(\S+?):(\d+)(?::\d+)?\s*(?:\(.*\))?$')
FRAME_NOSRC = re.compile(r'^\s*#(\d+)\s+0x[0-9a-f]+\s+(?:in\s+)?(.*?)\s+\((.*)\)$')


def strip_templates(s):
    out = []
    depth = 0
    for ch in s:
        if ch == '<':
            depth += 1
        elif ch == '>':
            if depth:
                depth -= 1
        elif depth == 0:
            out.append(ch)
    return ''.join(out)


def norm_func(f):
    f = f.strip()
    # drop parameter list (last top-level parenthesis group and anything after, e.g. " const", " [clone ...]")
    f = re.sub(r'\s*\[clone [^\]]*\]', '', f)
    f = strip_templates(f.replace('operator<<', 'operator_shl').replace('operator<=>', 'operator_cmp').replace('operator<=', 'operator_le')
                        .replace('operator<', 'operator_lt').replace('operator>>', 'operator_shr').replace('operator>=', 'operator_ge')
                        .replace('operator>', 'operator_gt').replace('operator->', 'operator_arrow'))
    depth = 0
    cut = None
    for i, ch in enumerate(f):
        if ch == '(':
            if depth == 0 and cut is None and not f[:i].endswith('operator'):
                cut = i
            depth += 1
        elif ch == ')':
            depth -= 1
    if cut is not None:
        f = f[:cut]
    # drop return type (text before last space at top level)
    if ' ' in f:
        f = f.split(' ')[-1]
    return f


def frames_of(lines):
    fr = []
    for ln in lines:
        m = FRAME.match(ln)
        if m:
            fr.append((int(m.group(1)), m.group(2), m.group(3), int(m.group(4))))
    return fr


def frigg_frame(frames):
    for n, func, path, line in frames:
        if '/include/frg/' in path:
            return '%s:%s' % (path.split('/include/frg/')[-1], norm_func(func))
    # no frigg frame: first harness frame
    for n, func, path, line in frames:
        if '/harness/' in path:
            return 'harness:%s:%s' % (path.split('/harness/')[-1], norm_func(func))
    return 'noframe'


def normalise_panic(msg):
    m = re.search(r'([A-Za-z_0-9]+\.hpp):(\d+): Assertion \'(.*)\' failed', msg)
    if m:
        return '%s:%s' % (m.group(1), m.group(3))
    return msg[:120]


def parse(text):
    lines = text.splitlines()
    reports = []
    i = 0
    n = len(lines)
    while i < n:
        ln = lines[i]
        m = re.search(r'ERROR: AddressSanitizer: (\S+)', ln)
        if m:
            cls = m.group(1)
            j = i + 1
            block = [ln]
            while j < n and not lines[j].startswith('SUMMARY:') and j < i + 400:
                block.append(lines[j])
                j += 1
            # first stack = frames until a blank line after first frame
            st = []
            started = False
            for b in block[1:]:
                if FRAME.match(b) or FRAME_NOSRC.match(b):
                    started = True
                    st.append(b)
                elif started:
                    break
            key = 'asan:%s:%s' % (cls, frigg_frame(frames_of(st)))
            reports.append({'key': key, 'summary': ln.strip()[:300], 'text': '\n'.join(block)})
            i = j + 1
            continue
        m = re.search(r'WARNING: ThreadSanitizer: (.+?) \(pid=', ln)
        if m:
            cls = m.group(1).replace(' ', '-')
            j = i + 1
            block = [ln]
            while j < n and not lines[j].startswith('SUMMARY:') and j < i + 400:
                block.append(lines[j])
                j += 1
            # split into stacks at header lines ("  Write of size", "  Previous read", ...)
            stacks = []
            cur = None
            for b in block[1:]:
                if re.match(r'^\s+(Write|Read|Previous|Atomic|Mutex|Location|Thread|As if|Cycle|Heap)', b) and not FRAME.match(b):
                    cur = {'hdr': b.strip(), 'lines': []}
                    stacks.append(cur)
                elif cur is not None and (FRAME.match(b) or FRAME_NOSRC.match(b)):
                    cur['lines'].append(b)
            acc = [s for s in stacks if re.match(r'^(Write|Read|Previous|Atomic)', s['hdr'])]
            fr = sorted(frigg_frame(frames_of(s['lines'])) for s in acc[:2])
            key = 'tsan:%s:%s' % (cls, '|'.join(fr) if fr else 'noframe')
            reports.append({'key': key, 'summary': ln.strip()[:300] + ' ' + ' / '.join(s['hdr'] for s in acc[:2]), 'text': '\n'.join(block)})
            i = j + 1
            continue
        m = re.match(r'^(\S+?):(\d+):(\d+): runtime error: (.*)$', ln)
        if m:
            msg = m.group(4)
            cls = re.sub(r'0x[0-9a-f]+', 'ADDR', msg)
            cls = re.sub(r'-?\d+', 'N', cls)
            cls = re.sub(r"'[^']*'", 'T', cls)
            cls = re.sub(r'\s+', '-', cls.strip())[:70]
            j = i + 1
            st = []
            while j < n and (FRAME.match(lines[j]) or FRAME_NOSRC.match(lines[j])):
                st.append(lines[j])
                j += 1
            path = m.group(1)
            where = path.split('/include/frg/')[-1] if '/include/frg/' in path else ('harness:' + path.split('/')[-1])
            ff = frigg_frame(frames_of(st)) if st else where
            if ff == 'noframe':
                ff = where
            key = 'ubsan:%s:%s' % (cls, ff)
            reports.append({'key': key, 'summary': ln.strip()[:300], 'text': '\n'.join([ln] + st)})
            i = j
            continue
        i += 1
    return reports


if __name__ == '__main__':
    import sys
    for r in parse(open(sys.argv[1]).read()):
        print(r['key'], '::', r['summary'])
