"""Check registry: which drivers / flavours / shard counts decide which property.

job fields: name, src (under harness/), flavour (asan|plain|tsan|cov|fuzz), defines, args, shards (int or {tier:int}),
tiers (default both), timeout (s), env, hang_is_violation (deterministic single-threaded drivers only).
"""

CHECKS = {}


def add(prop, **kw):
    CHECKS[prop] = kw


def job(name, src, flavour='asan', **kw):
    d = {'name': name, 'src': src, 'flavour': flavour}
    d.update(kw)
    return d


# ---------------------------------------------------------------------------------------------- C18
add('C18',
    level='exploration',
    rule='bitset/array/PRNG/sort cases compared with std::bitset, std::array, std::mt19937, the published PCG32 reference and a permutation+order oracle',
    jobs=[job('bitset%d' % s, 'c18_bitset.cpp', defines=['-DNSET=%d' % s], hang_is_violation=True) for s in range(8)] + [
        job('misc', 'c18_misc.cpp', hang_is_violation=True),
    ],
    min_evaluations={'quick': 20000, 'thorough': 200000},
    min_counters={'bitset_shift_cases': 1000, 'mt_draws_compared': 10000, 'pcg_draws_compared': 10000, 'sort_arrays': 1000, 'array_cases': 10},
    assumptions=['std::bitset / std::array / std::mt19937 of libstdc++ 12 are the executable references',
                 'PCG32 reference is an independent transcription of pcg-c-basic checked against its published known-answer output'],
    )
