"""Check registry: which drivers / flavours / shard counts decide which property.

job fields: name, src (under harness/), flavour (asan|plain|tsan|cov|fuzz), defines, args, shards (int or {tier:int}),
tiers (default both), timeout (s), env, hang_is_violation (deterministic single-threaded drivers only).
"""

CHECKS = {}


def add(prop, **kw):
    CHECKS[prop] = kw


def job(name, src, flavour='asan', **kw):
    d = {'name': name, 'src': src, 'flavour': flavour}
    d.update(kw)
    return d


# ---------------------------------------------------------------------------------------------- C18
add('C18',
    level='exploration',
    rule='bitset/array/PRNG/sort cases compared with std::bitset, std::array, std::mt19937, the published PCG32 reference and a permutation+order oracle',
    jobs=[job('bitset%d' % s, 'c18_bitset.cpp', defines=['-DNSET=%d' % s], hang_is_violation=True) for s in range(8)] + [
        job('misc', 'c18_misc.cpp', hang_is_violation=True),
    ],
    min_evaluations={'quick': 20000, 'thorough': 200000},
    min_counters={'bitset_shift_cases': 1000, 'mt_draws_compared': 10000, 'pcg_draws_compared': 10000, 'sort_arrays': 1000, 'array_cases': 10},
    assumptions=['std::bitset / std::array / std::mt19937 of libstdc++ 12 are the executable references',
                 'PCG32 reference is an independent transcription of pcg-c-basic checked against its published known-answer output'],
    )

# ---------------------------------------------------------------------------------------------- C13 / C16 (containers part)
add('C13',
    level='exploration',
    rule='operation sequences on vector / small_vector<N> / dyn_array / stack / list / intrusive_list compared with reference sequences after every operation (ASan+UBSan, exact-size blocks)',
    jobs=[job('containers', 'containers.cpp', args=['--arg', 'prop=C13'], shards={'quick': 8, 'thorough': 16}, hang_is_violation=True)],
    min_evaluations={'quick': 50000, 'thorough': 1000000},
    min_counters={'exhaustive_sequences': 10000, 'random_sequences': 1000},
    assumptions=['std::vector / std::list are the executable reference sequences', 'ASan red zones behind exact-size blocks observe out-of-storage accesses next to a block'],
    )

C16_JOBS = [job('containers', 'containers.cpp', args=['--arg', 'prop=C16'], shards={'quick': 8, 'thorough': 16}, hang_is_violation=True)]
add('C16',
    level='exploration',
    rule='operation sequences on every owning type with a lifetime-registering element type and a block-registering allocator; registries must be empty after the owner is destroyed',
    jobs=C16_JOBS,
    min_evaluations={'quick': 50000, 'thorough': 1000000},
    min_counters={'alloc_blocks': 10000},
    assumptions=['element lifetime is observed by address (Elem registry); raw storage is junk-filled so reads of never-constructed slots are deterministic'],
    )

# ---------------------------------------------------------------------------------------------- C15
add('C15',
    level='exploration',
    rule='strings/views vs std::string: exhaustive unary + pairwise batteries over {a,b,NUL}^<=4, random strings to length 300 incl. NULs and high-bit chars, random op sequences, to_number of fitting digit strings; sources in exact-size guarded buffers',
    jobs=[job('strings', 'c15_strings.cpp', args=['--arg', 'prop=C15'], shards={'quick': 8, 'thorough': 16}, hang_is_violation=True),
          job('strings_unsigned_char', 'c15_strings.cpp', defines=['-funsigned-char'], args=['--arg', 'prop=C15'], shards={'quick': 4, 'thorough': 8}, quick_args=['--scale', '0.3'], hang_is_violation=True)],
    min_evaluations={'quick': 15000, 'thorough': 300000},
    min_counters={'unary_cases': 100, 'binary_cases': 10000, 'to_number_cases': 1000, 'sequence_cases': 1000},
    assumptions=['std::string is the executable reference; compare() is checked against the documented length-first order',
                 'ASan red zones around exact-size source buffers and exact-size owned blocks observe over-reads'],
    )
C16_JOBS.append(job('strings', 'c15_strings.cpp', args=['--arg', 'prop=C16'], shards={'quick': 4, 'thorough': 8}, hang_is_violation=True))

# ---------------------------------------------------------------------------------------------- C14
add('C14',
    level='exploration',
    rule='seeded operation histories on frg::hash_map compared with std::unordered_map after every operation, for 6 hash functors (identity, constant, k&3, frg::hash, capacity-adversarial multiples, high-bit) and value types int / Elem',
    jobs=[job('hashmap', 'c14_hashmap.cpp', args=['--arg', 'prop=C14'], shards={'quick': 8, 'thorough': 16}, hang_is_violation=True)],
    min_evaluations={'quick': 1000, 'thorough': 30000},
    min_counters={'cases_crossing_first_rehash': 200, 'cases_crossing_third_rehash': 100},
    assumptions=['std::unordered_map is the executable reference map'],
    )
C16_JOBS.append(job('hashmap', 'c14_hashmap.cpp', args=['--arg', 'prop=C16'], shards={'quick': 4, 'thorough': 8}, hang_is_violation=True))

# ---------------------------------------------------------------------------------------------- C17
add('C17',
    level='exploration',
    rule='operation sequences on pairs of optional / variant / expected / manual_box / unique_ptr / unique_memory holders compared with a (state, value) model after every operation (exhaustive to length 4-6, random to 50), plus tuple/eternal/expected<void> batteries on random values',
    jobs=[job('holders', 'c17_holders.cpp', args=['--arg', 'prop=C17'], shards={'quick': 8, 'thorough': 16}, hang_is_violation=True)],
    min_evaluations={'quick': 100000, 'thorough': 1000000},
    min_counters={'exhaustive_sequences': 50000, 'tuple_cases': 100},
    assumptions=['the (state,value) models follow std::optional / std::variant / a 10-line expected model; moved-from holders keep their state with an unspecified value'],
    )
C16_JOBS.append(job('holders', 'c17_holders.cpp', args=['--arg', 'prop=C16'], shards={'quick': 4, 'thorough': 8}, hang_is_violation=True))

# ---------------------------------------------------------------------------------------------- C06
add('C06',
    level='exploration',
    rule='insert/remove histories on rbtree (with a subtree-size aggregator) and rbtree_order: all insertion orders x all removal orders for n<=6 (7 thorough) incl. duplicate-key variants and re-insertion, all insertion-position sequences for rbtree_order, random trees to 3000 (20000) nodes',
    jobs=[job('rbtree', 'c06_rbtree.cpp', shards={'quick': 12, 'thorough': 16}, hang_is_violation=True),
          # the same driver compiled the way a freestanding release build of a client would be (-DNDEBUG -ffreestanding: __STDC_HOSTED__ is 0): code guarded by such macros is code too
          # build configurations: release (NDEBUG, hosted), freestanding, and both (what a kernel build uses); macros that swallow their argument differ between them
          job('rbtree_ndebug', 'c06_rbtree.cpp', defines=['-DNDEBUG'], shards={'quick': 3, 'thorough': 8}, quick_args=['--scale', '0.25'], hang_is_violation=True),
          job('rbtree_freestanding', 'c06_rbtree.cpp', defines=['-ffreestanding'], shards={'quick': 3, 'thorough': 8}, quick_args=['--scale', '0.25'], hang_is_violation=True),
          job('rbtree_ndebug_freestanding', 'c06_rbtree.cpp', defines=['-DNDEBUG', '-ffreestanding'], shards={'quick': 3, 'thorough': 8}, quick_args=['--scale', '0.25'], hang_is_violation=True)],
    min_evaluations={'quick': 100000, 'thorough': 1000000},
    min_counters={'exhaustive_histories': 100000, 'order_histories': 1000, 'random_histories': 100},
    assumptions=['colours are read from the public hook member; everything else goes through the public navigation API'],
    )

# ---------------------------------------------------------------------------------------------- C07
add('C07',
    level='exploration',
    rule='insert/remove histories on interval_tree with every overlap query compared with brute force: all interval sequences of length<=3 (4 sampled; all in thorough) over endpoints 0..5 with all query pairs, every single removal and re-insertion; random histories to 1500 (5000) intervals for int and uint64_t',
    jobs=[job('interval', 'c07_interval.cpp', shards={'quick': 12, 'thorough': 16}, hang_is_violation=True),
          # the same driver compiled the way a freestanding release build of a client would be (-DNDEBUG -ffreestanding: __STDC_HOSTED__ is 0): code guarded by such macros is code too
          # build configurations: release (NDEBUG, hosted), freestanding, and both (what a kernel build uses); macros that swallow their argument differ between them
          job('interval_ndebug', 'c07_interval.cpp', defines=['-DNDEBUG'], shards={'quick': 3, 'thorough': 8}, quick_args=['--scale', '0.25'], hang_is_violation=True),
          job('interval_freestanding', 'c07_interval.cpp', defines=['-ffreestanding'], shards={'quick': 3, 'thorough': 8}, quick_args=['--scale', '0.25'], hang_is_violation=True),
          job('interval_ndebug_freestanding', 'c07_interval.cpp', defines=['-DNDEBUG', '-ffreestanding'], shards={'quick': 3, 'thorough': 8}, quick_args=['--scale', '0.25'], hang_is_violation=True)],
    min_evaluations={'quick': 10000, 'thorough': 100000},
    min_counters={'queries': 1000000, 'queries_with_hits': 100000, 'random_histories': 100},
    assumptions=['brute force over the reference multiset is the oracle; overlap is lo<=ub && lb<=hi on closed intervals'],
    )

# ---------------------------------------------------------------------------------------------- C08
add('C08',
    level='exploration',
    rule='push/pop/remove histories on pairing_heap vs a reference multiset: all sequences of length 6 (7) over {push 4 priorities, pop, remove by structural role}, random histories to 2000 (10000) elements; verified drain at the end of every history',
    jobs=[job('heap', 'c08_heap.cpp', shards={'quick': 12, 'thorough': 16}, hang_is_violation=True),
          # the same driver compiled the way a freestanding release build of a client would be (-DNDEBUG -ffreestanding: __STDC_HOSTED__ is 0): code guarded by such macros is code too
          # build configurations: release (NDEBUG, hosted), freestanding, and both (what a kernel build uses); macros that swallow their argument differ between them
          job('heap_ndebug', 'c08_heap.cpp', defines=['-DNDEBUG'], shards={'quick': 3, 'thorough': 8}, quick_args=['--scale', '0.25'], hang_is_violation=True),
          job('heap_freestanding', 'c08_heap.cpp', defines=['-ffreestanding'], shards={'quick': 3, 'thorough': 8}, quick_args=['--scale', '0.25'], hang_is_violation=True),
          job('heap_ndebug_freestanding', 'c08_heap.cpp', defines=['-DNDEBUG', '-ffreestanding'], shards={'quick': 3, 'thorough': 8}, quick_args=['--scale', '0.25'], hang_is_violation=True)],
    min_evaluations={'quick': 100000, 'thorough': 1000000},
    min_counters={'exhaustive_histories': 100000, 'random_histories': 100, 'remove_role_1': 1000, 'remove_role_2': 1000, 'remove_role_3': 1000, 'remove_role_4': 1000},
    assumptions=['structural roles of removal targets are read from the public hook fields; the oracle itself uses only top()/empty()/pop()/remove()'],
    )

# ---------------------------------------------------------------------------------------------- C09
add('C09',
    level='exploration',
    rule='insert/find_or_insert/find/erase/re-insert histories on rcu_radixtree vs std::map: all arrival orders of key sets (size 3-5, 6 in thorough) from an adversarial pool (first difference at each of the 16 nibbles, dense leaf runs, 0, 2^64-1), random histories to 4000 (20000) operations; UBSan armed for the shift arithmetic',
    jobs=[job('radix', 'c09_radix.cpp', args=['--arg', 'prop=C09'], shards={'quick': 8, 'thorough': 16}, hang_is_violation=True)],
    min_evaluations={'quick': 3000, 'thorough': 50000},
    min_counters={'exhaustive_orders': 2000, 'random_histories': 100, 'iterations': 10000, 'finds': 100000},
    assumptions=['std::map<uint64_t,(address,version)> is the reference; values carry (key, version) so a find identifies the insertion it observed'],
    )
C16_JOBS.append(job('radix', 'c09_radix.cpp', args=['--arg', 'prop=C16'], shards={'quick': 4, 'thorough': 8}, hang_is_violation=True))

# ---------------------------------------------------------------------------------------------- C01-C04 slab pool (single-threaded)
SLAB_ASSUME = ['the ShadowPolicy is the only source of memory; mappings come from mmap at page-aligned, deliberately not superblock-aligned bases',
               'size classes follow the documented arithmetic (8,16,32,64, then doubling): requests above the largest class are large blocks',
               'poison state is forwarded to AddressSanitizer (8-byte granules); the byte-accurate shadow covers the state part']
for _p, _txt in (('C01', 'every returned block checked against mapping registry, live-interval map, frame-header range, alignment and stable get_size'),
                 ('C02', 'per-block patterns verified at release/realloc/quiescent points, realloc/free semantics, per-class footprint bound maps<=ceil(peak/per_slab) after every operation'),
                 ('C03', 'map/unmap pairing, numUsedPages() deltas per mapping, poison shadow after every call, pool accesses to poisoned bytes reported by ASan')):
    add(_p, level='exploration',
        rule='seeded allocate/free/deallocate/realloc histories on 16 policy configurations (aligned/unaligned map, 5 geometries, poison on/off, 3 mutex types) + all sequences of length 6 on nearly-full tiny slabs: ' + _txt,
        jobs=[job('slab', 'c01_slab.cpp', args=['--arg', 'prop=' + _p], shards={'quick': 12, 'thorough': 16}, hang_is_violation=True),
              job('slab_track_regions', 'c01_slab.cpp', defines=['-DFRG_SLAB_TRACK_REGIONS=0'], args=['--arg', 'prop=' + _p], shards={'quick': 6, 'thorough': 16}, quick_args=['--scale', '0.34'], hang_is_violation=True)]
             # C03 across threads: the controlled-scheduler driver of C05 with a poisoning policy whose callbacks are scheduling points
             + ([job('slab_sched_poison', 'c05_slab_sched.cpp', args=['--arg', 'prop=C03'], shards={'quick': 5, 'thorough': 8})] if _p == 'C03' else []),
        min_evaluations={'quick': 10000, 'thorough': 100000},
        min_counters={'allocations': 100000, 'frees': 50000, 'reallocs_moved': 1000, 'reallocs_in_place': 1000, 'large_allocations': 1000, 'policy_unmap_calls': 1000, 'exhaustive_histories': 5000},
        assumptions=SLAB_ASSUME)
add('C04', level='fault_enumeration',
    rule='fixed seeded histories re-run with the i-th Policy::map attempt failing, for every i (thorough: every pair i<j<=i+12 and bursts of three), on 4 (6) configurations; all C01-C03 oracles stay armed, no pool mutex may remain held, later requests must succeed',
    jobs=[job('slabfault', 'c01_slab.cpp', args=['--arg', 'prop=C04'], shards={'quick': 12, 'thorough': 16}, hang_is_violation=True),
          # map() failing while another worker uses the same pool: the controlled-scheduler driver of C05 with fault scenarios
          job('slab_sched_fault', 'c05_slab_sched.cpp', args=['--arg', 'prop=C04'], shards={'quick': 5, 'thorough': 8})],
    min_evaluations={'quick': 100, 'thorough': 2000},
    min_counters={'map_failures_injected': 100, 'histories_with_injected_fault': 100, 'fault_site:large-frame': 5, 'fault_site:first-slab-of-class': 5, 'fault_site:additional-slab': 5,
                  'fault_site:copying-realloc-small-to-small': 1, 'fault_site:copying-realloc-small-to-large': 1, 'fault_site:copying-realloc-large-to-larger': 1},
    assumptions=SLAB_ASSUME + ['a fault is Policy::map returning 0; the history continues with the failed allocation omitted from the model'])

# ---------------------------------------------------------------------------------------------- C19
add('C19',
    level='exploration',
    rule='printf: full directive grid {d,i,u,o,x,X,c,s,p,%} x flag subsets x width x precision x length x boundary values + random multi-directive and positional formats, byte-compared with glibc vsnprintf (C locale) through an exact-size va_list; fmt(): spec grid + random specs vs an independent interpreter of the documented grammar; stack_buffer_logger: Limit in {2,3,8,128} x lengths 0..3*Limit+2',
    jobs=[job('format', 'c19_format.cpp', shards={'quick': 8, 'thorough': 16}, hang_is_violation=True),
          # targets whose plain char is unsigned (AArch64, RISC-V, PowerPC; here: -funsigned-char): hh/char handling must not lean on the host's signedness
          job('format_unsigned_char', 'c19_format.cpp', defines=['-funsigned-char'], shards={'quick': 4, 'thorough': 8}, quick_args=['--scale', '0.3'], hang_is_violation=True),
          # the kernel / soft-float configuration of printf.hpp
          job('format_no_long_double', 'c19_format.cpp', defines=['-DFRG_DONT_USE_LONG_DOUBLE'], shards={'quick': 4, 'thorough': 8}, quick_args=['--scale', '0.3'], hang_is_violation=True)],
    min_evaluations={'quick': 20000, 'thorough': 200000},
    min_counters={'printf_directives_compared': 300000, 'fmt_specs_compared': 5000, 'logger_messages': 1000},
    assumptions=['glibc 2.36 vsnprintf in the "C" locale is the executable reference for ISO C printf (so the \' flag has no effect); %p is compared in frigg\'s documented 0x<hex> form, which glibc also prints for non-null pointers',
                 'fmt reference: an interpreter written from the grammar comment ([0-9]+)?(:0?[0-9]*[bcdioXx]?)? with sign before zero fill; specs it leaves undefined (width on strings, c on non-char) are not compared',
                 'x86-64 SysV va_list layout (gp_offset=48, fp_offset=304, overflow area = exact-size heap array)'],
    )

# ---------------------------------------------------------------------------------------------- C20
add('C20',
    level='exploration',
    rule='every string up to length 5-7 over reduced alphabets of the syntactically relevant characters for printf_format, fmt(), parse_arguments (4 option tables) and to_number<int8..uint64>, plus grammar-generated/mutated longer inputs, each from an exact-size buffer (printf: exact-size va_list computed by an independent tokenizer) under ASan+UBSan; stopping through frg_panic is accepted',
    jobs=[job('parsers', 'c20_parsers.cpp', shards={'quick': 8, 'thorough': 16}, hang_is_violation=True),
          # the kernel/freestanding configuration of printf.hpp (no long double): code under the macro is code too
          job('parsers_no_long_double', 'c20_parsers.cpp', defines=['-DFRG_DONT_USE_LONG_DOUBLE'], shards={'quick': 4, 'thorough': 8}, quick_args=['--scale', '0.3'], hang_is_violation=True),
          job('parsers_unsigned_char', 'c20_parsers.cpp', defines=['-funsigned-char'], shards={'quick': 4, 'thorough': 8}, quick_args=['--scale', '0.3'], hang_is_violation=True),
          job('fuzz', 'fuzz_parsers.cpp', flavour='fuzz', tiers=('thorough',), shards={'thorough': 12}, fuzz_runs={'thorough': 1000000}, dict='fuzz_parsers.dict', max_len=192, timeout=3000)],
    min_evaluations={'quick': 300000, 'thorough': 3000000},
    min_counters={'printf_completed': 50000, 'printf_stopped_by_assertion': 10000, 'fmt_completed': 50000, 'cmdline_completed': 50000, 'cmdline_stopped_by_assertion': 100, 'to_number_value': 10000, 'to_number_null': 10000, 'printf_long_number_cases': 500},
    assumptions=['memory safety is observed by ASan red zones around exact-size heap buffers (inputs, option targets, positional arg_list of NL_ARGMAX entries, variadic slots) and UBSan; non-adjacent wild accesses into other live memory are not observable',
                 'widths/precisions above 100000 are exercised in a handful of cases only (they are an output-volume question, not a parsing one)'],
    )

# ---------------------------------------------------------------------------------------------- C12
add('C12',
    level='exploration',
    rule='guards: all admissible operation sequences of length 4 (5) over 22 guard operations on two guards / two instrumented mutexes for unique_lock and shared_lock, frg::guard(), QS lock_guard; spinlocks: bounded-preemption DFS over 2x2 and 3x1 lock/unlock scenarios + PCT/random schedules of 2-4 workers under the controlled scheduler (switches only at the atomic accesses), + free-running threads under ThreadSanitizer with a plain counter in the critical section',
    jobs=[job('locks', 'c12_locks.cpp', shards={'quick': 8, 'thorough': 16}),
          job('locks_tsan', 'c12_tsan.cpp', flavour='tsan', shards={'quick': 2, 'thorough': 4})],
    min_evaluations={'quick': 50000, 'thorough': 500000},
    min_counters={'guard_sequences': 10000, 'spin_schedules': 5000, 'dfs_spaces_exhausted': 4, 'qs_lock_guard_sequences': 64, 'tsan_lock_pairs': 100000},
    assumptions=['the controlled scheduler explores sequentially consistent interleavings at the hook points; weak-memory effects are observable only as missing happens-before edges to ThreadSanitizer (plain data in the critical section)'],
    )

# ---------------------------------------------------------------------------------------------- C11
add('C11',
    level='exploration',
    rule='QS domain: E1 all admissible whole-operation sequences over 1-3 agents (depth 8/5/4) + random to depth 60 (200), E3 bounded-preemption DFS over 10 two/three-worker micro-scripts and PCT/random schedules with switches at every atomic access and mutex operation, E2 RCU torture under ThreadSanitizer/ASan; event-log oracle S1/S2/S4 + bounded progress (callback within 8 rounds)',
    jobs=[job('qs', 'c11_qs.cpp', shards={'quick': 12, 'thorough': 16}),
          job('qs_tsan', 'c11_tsan.cpp', flavour='tsan', shards={'quick': 3, 'thorough': 6}),
          job('qs_asan_threads', 'c11_tsan.cpp', flavour='asan', shards={'quick': 1, 'thorough': 2}),
          job('qs_tsan_ticket_mutex', 'c11_tsan.cpp', flavour='tsan', defines=['-DC11_TICKET_MUTEX'], shards={'quick': 2, 'thorough': 4})],
    min_evaluations={'quick': 100000, 'thorough': 1000000},
    min_counters={'e1_admissible_sequences': 20000, 'e3_schedules': 5000, 'dfs_spaces_exhausted': 3, 'tsan_callbacks': 1000, 'tsan_reader_sections': 10000},
    assumptions=['liveness is decided as bounded progress: after the scripted part every registered callback must run within 8 rounds of (every online agent: quiescent_state; registrant: run)',
                 'offline() of an agent that deferred a grace period stops at the documented FRG_ASSERT(!_qs_deferred) TODO before changing state: counted, not flagged',
                 'the controlled scheduler explores sequentially consistent interleavings; the happens-before clause is observed by ThreadSanitizer on plain reader data'],
    )

# ---------------------------------------------------------------------------------------------- C10
add('C10',
    level='exploration',
    rule='rcu_radixtree with a single writer and concurrent finders: E3 bounded-preemption DFS (bound 3/4) over 10 scenarios covering the three insertion cases (empty slot, prefix split at the root / middle / deep, direct leaf slot) and erase, PCT/random schedules over random scripts; E2 tree lifetimes with 3-6 free-running finder threads under ThreadSanitizer (plain node and value fields)',
    jobs=[job('radix_sched', 'c10_radix.cpp', shards={'quick': 10, 'thorough': 16}),
          job('radix_tsan', 'c10_tsan.cpp', flavour='tsan', shards={'quick': 4, 'thorough': 8}),
          # the same drivers with a trivially destructible payload
          job('radix_sched_trivial_value', 'c10_radix.cpp', defines=['-DC10_TRIVIAL_VALUE'], shards={'quick': 6, 'thorough': 12}),
          job('radix_tsan_trivial_value', 'c10_tsan.cpp', flavour='tsan', defines=['-DC10_TRIVIAL_VALUE'], shards={'quick': 3, 'thorough': 6}),
          # a scalar payload (a pointer per key): the entry is one word, read by find()'s caller with a plain load
          job('radix_tsan_scalar_value', 'c10_tsan.cpp', flavour='tsan', defines=['-DC10_SCALAR_VALUE'], shards={'quick': 3, 'thorough': 6})],
    min_evaluations={'quick': 5000, 'thorough': 100000},
    min_counters={'schedules': 5000, 'finds_checked': 10000, 'finds_overlapping_a_write': 1000, 'dfs_spaces_exhausted': 5, 'tsan_finds': 100000, 'tsan_tree_lifetimes': 100},
    assumptions=['the controlled scheduler explores sequentially consistent interleavings at the hook points; missing release/acquire edges are observed by ThreadSanitizer on plain node/value fields',
                 'a key is not re-inserted after an erase while readers may still hold its value (the client must wait for a grace period: not a promise of the tree)'],
    )

# ---------------------------------------------------------------------------------------------- C05
add('C05',
    level='exploration',
    rule='slab_pool shared by threads: E3 bounded-preemption DFS over 13 scenarios (4 of them with a poisoning policy whose callbacks are scheduling points; two workers find a class empty at once, free into the slab another worker allocates from, slab becoming full/partial, large+small, moving realloc, three workers) and PCT/random schedules of random scripts with switches at every pool mutex operation, hook point and policy callback; E2 2-8 free-running threads with cross-thread frees under ThreadSanitizer for three mutex types + offline overlap check of the recorded history',
    jobs=[job('slab_sched', 'c05_slab_sched.cpp', shards={'quick': 8, 'thorough': 16}),
          job('slab_tsan', 'c05_tsan.cpp', flavour='tsan', shards={'quick': 4, 'thorough': 8}),
          # the region-tracking configuration of slab.hpp (a shared tree of all frames, under its own mutex) with free-running threads
          job('slab_tsan_track_regions', 'c05_tsan.cpp', flavour='tsan', defines=['-DFRG_SLAB_TRACK_REGIONS'], shards={'quick': 3, 'thorough': 6}),
          job('slab_sched_track_regions', 'c05_slab_sched.cpp', defines=['-DFRG_SLAB_TRACK_REGIONS'], shards={'quick': 4, 'thorough': 8}, quick_args=['--scale', '0.3']),
          # a policy with the optional allocation-trace hooks: the pool's tracing code then runs (outside its locks) in every thread
          job('slab_tsan_trace_hooks', 'c05_tsan.cpp', flavour='tsan', defines=['-DC05_TRACE_HOOKS'], shards={'quick': 3, 'thorough': 6}),
          job('slab_sched_trace_hooks', 'c05_slab_sched.cpp', defines=['-DC05_TRACE_HOOKS'], shards={'quick': 4, 'thorough': 8}, quick_args=['--scale', '0.3'])],
    min_evaluations={'quick': 5000, 'thorough': 100000},
    min_counters={'schedules': 5000, 'dfs_spaces_exhausted': 4, 'reentrant_policy_allocations': 1000, 'schedules_with_concurrent_slab_construction_or_extra_map': 500, 'tsan_allocations': 100000, 'tsan_cross_thread_frees': 1000, 'tsan_reallocs': 1000},
    assumptions=['the controlled scheduler explores sequentially consistent interleavings at lock operations, hook points and policy callbacks; data races on pool state are observed by ThreadSanitizer in the free-running runs',
                 'blocks are written with plain stores by their owner, so a double hand-out is also a data race'],
    )

# auxiliary entry (not in MANIFEST): the libFuzzer job of C20 alone, for debugging the E5 integration
add('C20F', level='exploration', rule='libFuzzer job of C20 alone',
    jobs=[dict(j) for j in CHECKS['C20']['jobs'] if j['flavour'] == 'fuzz'], min_evaluations={'thorough': 1000}, min_counters={}, assumptions=[])
