#!/bin/bash
# Multi-seed soak of every registered quick check on the unchanged tree (evidence files are not rewritten).
# usage: tools/soak.sh "2 3 4 5 7" [props...]
cd "$(dirname "$0")/.."
SEEDS=${1:-"2 3 4 5 7"}; shift
PROPS=${*:-"C01 C02 C03 C04 C05 C06 C07 C08 C09 C10 C11 C12 C13 C14 C15 C16 C17 C18 C19 C20"}
OUT=soak_results.txt
for s in $SEEDS; do for p in $PROPS; do
  R=$(VERIF_SEED=$s VERIF_NO_EVIDENCE=1 ./check $p quick 2>/dev/null | grep -E "^(HELD|VIOLATED|HARNESS|VIOLATION|  key=)" | tr '\n' ' ' | cut -c1-400)
  echo "seed=$s $p rc=$? $R" | tee -a $OUT
done; done
