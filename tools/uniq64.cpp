// Counts the distinct 64-bit values in the union of the given binary files.
#include <cstdio>
#include <cstdint>
#include <vector>
#include <algorithm>
int main(int argc, char **argv) {
	std::vector<uint64_t> v;
	for(int i = 1; i < argc; i++) {
		FILE *f = fopen(argv[i], "rb");
		if(!f) continue;
		uint64_t buf[4096]; size_t n;
		while((n = fread(buf, 8, 4096, f)) > 0) v.insert(v.end(), buf, buf + n);
		fclose(f);
	}
	std::sort(v.begin(), v.end());
	size_t d = std::unique(v.begin(), v.end()) - v.begin();
	printf("%zu\n", d);
	return 0;
}
