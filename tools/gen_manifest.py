#!/usr/bin/env python3
"""Generates /verif/MANIFEST.json from tools/registry.py + tools/manifest_text.py (kept in one place so it stays valid)."""
import json, os, sys, subprocess
sys.path.insert(0, os.path.dirname(os.path.abspath(__file__)))
import registry, manifest_text

VERIF = os.path.dirname(os.path.dirname(os.path.abspath(__file__)))
ALL = ['C%02d' % i for i in range(1, 21)]

def hook_commits():
    try:
        out = subprocess.run(['git', '-C', '/repo', 'log', '--format=%h %s'], capture_output=True, text=True).stdout
        return [l.split()[0] for l in out.splitlines() if l.split(' ', 1)[1].startswith('verif-hooks:')]
    except Exception:
        return []

m = {
    'version': 1,
    'setup_cmd': './check --build-all quick',
    'hooks': {
        'guard': 'FRG_VERIF_HOOKS',
        'enable': 'drivers are compiled with -DFRG_VERIF_HOOKS -I/repo/include (header-only library; see check: COMMON_FLAGS)',
        'baseline_off_cmd': 'meson test -C /repo/_build',
        'source_commits': hook_commits(),
        'add_only': True,
    },
    'engines': manifest_text.ENGINES,
    'checks': [],
    'notes': manifest_text.NOTES,
    'not_applicable': [],
}
for pid in ALL:
    if pid in registry.CHECKS:
        t = manifest_text.CHECK_TEXT.get(pid, {})
        spec = registry.CHECKS[pid]
        m['checks'].append({
            'property_id': pid,
            'quick_cmd': './check %s quick' % pid,
            'thorough_cmd': './check %s thorough' % pid,
            'evidence_file': 'evidence/%s.json' % pid,
            'replay_cmd_template': './check %s --replay {path}' % pid,
            'engine': t.get('engine', 'E1'),
            'level_claimed': {'category': spec.get('level', 'exploration'), 'text': t.get('level_text', spec.get('rule', '')), 'design_ref': t.get('design_ref', 'DESIGN.md section 3, ' + pid)},
            'level_note': t.get('level_note', '; '.join(spec.get('assumptions', []))),
            'technique': t.get('technique', 'runtime monitoring: reference-model monitor over generated operation sequences under ASan+UBSan'),
        })
    else:
        m['not_applicable'].append({'property_id': pid, 'reason': manifest_text.NOT_YET.get(pid, 'check not built yet in this round (runtime monitoring applies; see DESIGN.md section 3)')})
with open(os.path.join(VERIF, 'MANIFEST.json'), 'w') as fh:
    json.dump(m, fh, indent=1)
print('MANIFEST.json: %d checks, %d not claimed' % (len(m['checks']), len(m['not_applicable'])))
