"""E6: gcov line coverage of the frigg headers reached by a property's drivers (thorough tier evidence).

Each driver of the property is built once with `g++ -O0 --coverage`, run with a reduced workload (--scale) as a single shard,
and gcov is run on the resulting .gcda; lines are merged over all drivers of the property. Only /include/frg/ headers are reported.
The numbers say which lines of the anchored headers the workload *drove* - lines not listed as covered were never observed
by any monitor of this property.
"""
import os, re, subprocess, glob, shutil, json


def run_cov(verif, repo, build_one, jobs, tier, seed, env_base, log, scale='0.05'):
    merged = {}  # header -> {line: count}
    notes = []
    for j in jobs:
        if j['flavour'] not in ('asan', 'plain'):
            continue
        exe, err = build_one(j['src'], 'cov', j.get('defines', []))
        if err:
            notes.append('coverage build failed for %s' % j['src'])
            continue
        d = os.path.dirname(exe)
        try:
            with open(os.path.join(d, 'info.json')) as fh:
                d = json.load(fh).get('compiled_in', d)  # .gcno/.gcda live where the compiler ran
        except Exception:
            pass
        for f in glob.glob(os.path.join(d, '*.gcda')) + glob.glob(os.path.join(d, '*.gcov')):
            os.unlink(f)
        out = os.path.join(d, 'cov_result.json')
        cmd = [exe, '--tier', 'quick', '--seed', str(seed), '--shard', '0/1', '--out', out, '--scale', scale] + j.get('args', [])
        env = dict(env_base)
        try:
            subprocess.run(cmd, stdout=subprocess.DEVNULL, stderr=subprocess.DEVNULL, env=env, timeout=1500, cwd=d)
        except subprocess.TimeoutExpired:
            notes.append('coverage run of %s timed out (partial data)' % j['src'])
        gcdas = glob.glob(os.path.join(d, '*.gcda'))
        if not gcdas:
            notes.append('no .gcda produced by %s' % j['src'])
            continue
        subprocess.run(['gcov', '-p', '-l'] + [os.path.basename(g) for g in gcdas], cwd=d, stdout=subprocess.DEVNULL, stderr=subprocess.DEVNULL)
        for g in glob.glob(os.path.join(d, '*.gcov')):
            with open(g, errors='replace') as fh:
                lines = fh.read().splitlines()
            src = None
            for ln in lines[:5]:
                m = re.match(r'\s*-:\s*0:Source:(.*)', ln)
                if m:
                    src = m.group(1)
            if not src or '/include/frg/' not in src:
                continue
            hdr = src.split('/include/frg/')[-1]
            tab = merged.setdefault(hdr, {})
            for ln in lines:
                m = re.match(r'\s*([^:]+):\s*(\d+):', ln)
                if not m:
                    continue
                cnt, no = m.group(1).strip(), int(m.group(2))
                if no == 0 or cnt == '-':
                    continue
                c = 0 if cnt.startswith('#') or cnt.startswith('=') else int(re.sub(r'[^0-9]', '', cnt) or 0)
                tab[no] = tab.get(no, 0) + c
        for f in glob.glob(os.path.join(d, '*.gcov')):
            os.unlink(f)
    report = {}
    for hdr, tab in sorted(merged.items()):
        total = len(tab)
        cov = sum(1 for v in tab.values() if v > 0)
        unc = sorted(no for no, v in tab.items() if v == 0)
        ranges = []
        for no in unc:
            if ranges and no == ranges[-1][1] + 1:
                ranges[-1][1] = no
            else:
                ranges.append([no, no])
        report[hdr] = {'instrumented_lines': total, 'covered_lines': cov, 'pct': round(100.0 * cov / total, 1) if total else 0.0,
                       'uncovered_line_ranges': ['%d-%d' % (a, b) if a != b else str(a) for a, b in ranges[:40]]}
    return report, notes
