ENGINES = [
    {'name': 'E1-seq', 'path': 'harness/', 'serves_properties': ['C01', 'C02', 'C03', 'C06', 'C07', 'C08', 'C09', 'C13', 'C14', 'C15', 'C16', 'C17', 'C18', 'C19', 'C20'],
     'kind_free_text': 'single-threaded model-based / differential workload drivers built with gcc -fsanitize=address,undefined; monitors: reference models, tracked allocator, lifetime-registering element type, guarded buffers, exact-size va_list'},
]
NOTES = 'All checks are runtime monitors over executions of the real headers; verdicts are "held on what was observed". See DESIGN.md.'
NOT_YET = {}
CHECK_TEXT = {
    'C19': {'technique': 'runtime monitoring: byte-for-byte differential monitor against glibc vsnprintf over the full directive grid (arguments through an exact-size va_list), independent spec interpreter for fmt(), chunk-concatenation monitor for stack_buffer_logger, under ASan+UBSan'},
    'C20': {'technique': 'runtime monitoring: ASan+UBSan with exact-size input buffers / option cells / variadic slots (slot count from an independent tokenizer) over bounded-exhaustive and generated inputs to the four parsers; panic-hook stops are accepted outcomes'},
    'C01': {'technique': 'runtime monitoring: shadow-model monitor (mapping registry, live-interval map, header range, alignment, stable size) on every block returned in seeded and bounded-exhaustive histories over 13 policy configurations, under ASan+UBSan'},
    'C02': {'technique': 'runtime monitoring: per-block pattern monitor + realloc/free semantic checks + per-class footprint invariant after every operation of seeded histories, under ASan+UBSan'},
    'C03': {'technique': 'runtime monitoring: policy-callback protocol monitor (map/unmap registry, page-counter deltas, byte-accurate poison shadow) with poison state forwarded to ASan so pool accesses to poisoned bytes are sanitizer reports'},
    'C04': {'technique': 'fault injection: enumerate every Policy::map attempt of fixed histories (singles; pairs and bursts in thorough) and fail it, with the C01-C03 monitors armed', 'engine': 'E4'},
    'C09': {'technique': 'runtime monitoring: differential monitor against std::map (addresses, (key,version) contents, ordered iteration) over all arrival orders of adversarial key sets and random histories, under ASan+UBSan'},
    'C07': {'technique': 'runtime monitoring: brute-force overlap oracle over the reference multiset for every query of bounded-exhaustive and random insert/remove histories, under ASan+UBSan'},
    'C08': {'technique': 'runtime monitoring: reference-multiset monitor on top()/empty()/pop()/remove() after every operation + verified drain, bounded-exhaustive and random histories, under ASan+UBSan'},
    'C06': {'technique': 'runtime monitoring: structural-invariant + reference-order monitor through the public navigation API after every insert/remove of bounded-exhaustive and random histories, under ASan+UBSan'},
    'C14': {'technique': 'runtime monitoring: differential monitor against std::unordered_map after every operation of seeded histories, 6 hash functors, under ASan+UBSan'},
    'C17': {'technique': 'runtime monitoring: (state,value) reference-model monitor after every operation of bounded-exhaustive and random holder operation sequences, under ASan+UBSan'},
    'C15': {'technique': 'runtime monitoring: differential monitor against std::string over exhaustive small strings/pairs and random sequences, sources in exact-size guarded buffers under ASan+UBSan'},
    'C13': {'technique': 'runtime monitoring: reference-sequence monitor after every operation of bounded-exhaustive and random operation sequences, under ASan+UBSan with exact-size tracked blocks'},
    'C16': {'technique': 'runtime monitoring: element-lifetime registry (by address) + allocation registry checked during and after operation sequences on every owning type, under ASan+UBSan'},
    'C18': {'technique': 'runtime monitoring: differential monitor against std::bitset/std::array/std::mt19937/PCG reference with canary words, under ASan+UBSan'},
}
