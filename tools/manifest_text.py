ENGINES = [
    {'name': 'E2-threads', 'path': 'harness/*_tsan.cpp', 'serves_properties': ['C05', 'C10', 'C11', 'C12'], 'kind_free_text': 'free-running pthreads under gcc -fsanitize=thread (plain data guarded by the ordering under test), seeded jitter at the frigg hook points, offline history checkers; wall-clock watchdog is inconclusive only'},
    {'name': 'E3-sched', 'path': 'harness/common/sched.hpp', 'serves_properties': ['C05', 'C10', 'C11', 'C12'], 'kind_free_text': 'controlled scheduler: real threads serialized by a baton, context switches only at frg_verif_point sites / SchedMutex operations / policy callbacks; bounded-preemption DFS, PCT, random walk; deadlock and livelock are logical verdicts; ASan+UBSan build'},
    {'name': 'E4-faults', 'path': 'harness/c01_slab.cpp', 'serves_properties': ['C04'], 'kind_free_text': 'deterministic enumeration of Policy::map failures over fixed seeded histories'},
    {'name': 'E1-seq', 'path': 'harness/', 'serves_properties': ['C01', 'C02', 'C03', 'C06', 'C07', 'C08', 'C09', 'C13', 'C14', 'C15', 'C16', 'C17', 'C18', 'C19', 'C20'],
     'kind_free_text': 'single-threaded model-based / differential workload drivers built with gcc -fsanitize=address,undefined; monitors: reference models, tracked allocator, lifetime-registering element type, guarded buffers, exact-size va_list'},
]
NOTES = 'All checks are runtime monitors over executions of the real headers; verdicts are "held on what was observed". See DESIGN.md.'
NOT_YET = {}
CHECK_TEXT = {
    'C05': {'engine': 'E3+E2', 'technique': 'runtime monitoring: controlled-scheduler exploration (bounded-preemption DFS + PCT) with double-hand-out / pattern / policy-without-lock / deadlock monitors, plus ThreadSanitizer and an offline overlap checker on free-running multi-threaded histories'},
    'C10': {'engine': 'E3+E2', 'technique': 'runtime monitoring: controlled-scheduler exploration of writer||finder scripts with an interval-based presence oracle, plus ThreadSanitizer on plain node/value fields in free-running runs'},
    'C11': {'engine': 'E1+E3+E2', 'technique': 'runtime monitoring: event-log oracle (callback once / inside run / grace period / bounded progress) over exhaustive whole-operation sequences and controlled schedules, node freed in its callback under ASan, ThreadSanitizer RCU torture for the happens-before clause'},
    'C12': {'engine': 'E1+E3+E2', 'technique': 'runtime monitoring: ownership-model monitor over exhaustive guard operation sequences; controlled-scheduler DFS/PCT with mutual-exclusion, ticket-order and hand-over monitors; ThreadSanitizer on a plain counter in the critical section'},
    'C19': {'technique': 'runtime monitoring: byte-for-byte differential monitor against glibc vsnprintf over the full directive grid (arguments through an exact-size va_list), independent spec interpreter for fmt(), chunk-concatenation monitor for stack_buffer_logger, under ASan+UBSan'},
    'C20': {'technique': 'runtime monitoring: ASan+UBSan with exact-size input buffers / option cells / variadic slots (slot count from an independent tokenizer) over bounded-exhaustive and generated inputs to the four parsers; panic-hook stops are accepted outcomes'},
    'C01': {'technique': 'runtime monitoring: shadow-model monitor (mapping registry, live-interval map, header range, alignment, stable size) on every block returned in seeded and bounded-exhaustive histories over 13 policy configurations, under ASan+UBSan'},
    'C02': {'technique': 'runtime monitoring: per-block pattern monitor + realloc/free semantic checks + per-class footprint invariant after every operation of seeded histories, under ASan+UBSan'},
    'C03': {'technique': 'runtime monitoring: policy-callback protocol monitor (map/unmap registry, page-counter deltas, byte-accurate poison shadow) with poison state forwarded to ASan so pool accesses to poisoned bytes are sanitizer reports'},
    'C04': {'technique': 'fault injection: enumerate every Policy::map attempt of fixed histories (singles; pairs and bursts in thorough) and fail it, with the C01-C03 monitors armed', 'engine': 'E4'},
    'C09': {'technique': 'runtime monitoring: differential monitor against std::map (addresses, (key,version) contents, ordered iteration) over all arrival orders of adversarial key sets and random histories, under ASan+UBSan'},
    'C07': {'technique': 'runtime monitoring: brute-force overlap oracle over the reference multiset for every query of bounded-exhaustive and random insert/remove histories, under ASan+UBSan'},
    'C08': {'technique': 'runtime monitoring: reference-multiset monitor on top()/empty()/pop()/remove() after every operation + verified drain, bounded-exhaustive and random histories, under ASan+UBSan'},
    'C06': {'technique': 'runtime monitoring: structural-invariant + reference-order monitor through the public navigation API after every insert/remove of bounded-exhaustive and random histories, under ASan+UBSan'},
    'C14': {'technique': 'runtime monitoring: differential monitor against std::unordered_map after every operation of seeded histories, 6 hash functors, under ASan+UBSan'},
    'C17': {'technique': 'runtime monitoring: (state,value) reference-model monitor after every operation of bounded-exhaustive and random holder operation sequences, under ASan+UBSan'},
    'C15': {'technique': 'runtime monitoring: differential monitor against std::string over exhaustive small strings/pairs and random sequences, sources in exact-size guarded buffers under ASan+UBSan'},
    'C13': {'technique': 'runtime monitoring: reference-sequence monitor after every operation of bounded-exhaustive and random operation sequences, under ASan+UBSan with exact-size tracked blocks'},
    'C16': {'technique': 'runtime monitoring: element-lifetime registry (by address) + allocation registry checked during and after operation sequences on every owning type, under ASan+UBSan'},
    'C18': {'technique': 'runtime monitoring: differential monitor against std::bitset/std::array/std::mt19937/PCG reference with canary words, under ASan+UBSan'},
}
