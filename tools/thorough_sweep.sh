#!/bin/bash
# Runs every thorough check once (sequentially) and records the verdict lines. usage: tools/thorough_sweep.sh [props...]
cd "$(dirname "$0")/.."
PROPS=${*:-"C18 C13 C15 C14 C17 C16 C06 C07 C08 C09 C19 C20 C12 C10 C05 C11 C04 C01 C02 C03"}
for p in $PROPS; do
  S=$(date +%s)
  R=$(./check $p thorough 2>/dev/null | grep -E "^(HELD|VIOLATED|HARNESS|VIOLATION|  key=|KNOWN)" | tr '\n' ' ' | cut -c1-500)
  echo "$p rc=$? $(( $(date +%s) - S ))s $R" | tee -a thorough_results.txt
done
