#!/bin/bash
# Runs every thorough check once (sequentially) and records the verdict lines. usage: tools/thorough_sweep.sh [props...]
cd "$(dirname "$0")/.."
PROPS=${*:-"C18 C13 C15 C14 C17 C16 C06 C07 C08 C09 C19 C20 C12 C10 C05 C11 C04 C01 C02 C03"}
for p in $PROPS; do
  S=$(date +%s)
  ./check $p thorough > /tmp/sweep_$$.out 2>/dev/null; RC=$?
  R=$(grep -E "^(HELD|VIOLATED|HARNESS|VIOLATION|  key=)" /tmp/sweep_$$.out | cut -c1-260 | tr '\n' ' ')
  echo "$p rc=$RC $(( $(date +%s) - S ))s $R" | tee -a thorough_results.txt
  rm -f /tmp/sweep_$$.out
done
