"""Catalogue of textual mutants of /repo/include/frg (each compiles and passes the 19 baseline tests).
fields: name, props (checks expected to fire), file, old, new [, count]"""

MUTANTS = []


def M(name, props, file, old, new, **kw):
    d = {'name': name, 'props': props if isinstance(props, list) else [props], 'file': file, 'old': old, 'new': new}
    d.update(kw)
    MUTANTS.append(d)


# ---------------------------------------------------------------- C06 rbtree
M('rbtree:skip-reaggregate-rotateLeft', 'C06', 'rbtree.hpp', "		aggregate_node(u);\n		aggregate_node(n);\n	}\n\n	// Right rotation", "		aggregate_node(n);\n	}\n\n	// Right rotation")
M('rbtree:insert_left-skip-pred-successor', 'C06', 'rbtree.hpp', "		if(pred)\n			h(pred)->successor = node;\n		h(node)->predecessor = pred;", "		h(node)->predecessor = pred;")
M('rbtree:fix_insert-skip-uncle-recolour', 'C06', 'rbtree.hpp', "			h(get_right(grand))->color = color_type::black;\n", "")
M('rbtree:replace_node-keep-pred-link', 'C06', 'rbtree.hpp', "		h(node)->predecessor = nullptr;\n		h(node)->successor = nullptr;\n\n		aggregate_node(replacement);", "		h(node)->successor = nullptr;\n\n		aggregate_node(replacement);")
M('rbtree:fix_remove-wrong-colour', 'C06', 'rbtree.hpp', "			rotateLeft(s);\n			h(parent)->color = color_type::black;\n			h(s)->color = parent_color;", "			rotateLeft(s);\n			h(parent)->color = color_type::black;\n			h(s)->color = color_type::black;")
M('rbtree:equal-keys-go-left', 'C06', 'rbtree.hpp', "			if(_less(*node, *current)) {", "			if(!_less(*current, *node)) {")
M('rbtree_order:insert-after-instead-of-before', 'C06', 'rbtree.hpp', "			T *current = get_left(before);\n			if(!current) {\n				insert_left(before, node);\n				return;\n			}\n\n			while(get_right(current)) {\n				current = get_right(current);\n			}\n			insert_right(current, node);", "			T *current = get_left(before);\n			if(!current) {\n				insert_left(before, node);\n				return;\n			}\n\n			while(get_left(current)) {\n				current = get_left(current);\n			}\n			insert_left(current, node);")

# ---------------------------------------------------------------- C13 / C16 containers
M('vector:growth-copies-capacity', ['C16'], 'vector.hpp', "	for(size_t i = 0; i < _size; i++)\n		new (&new_array[i]) T(std::move(_elements[i]));", "	for(size_t i = 0; i < _capacity; i++)\n		new (&new_array[i]) T(std::move(_elements[i]));")
M('vector:pop-skips-destructor', ['C16'], 'vector.hpp', "	T element = std::move(_elements[_size]);\n	_elements[_size].~T();", "	T element = std::move(_elements[_size]);")
M('vector:resize-shrink-off-by-one', ['C13', 'C16'], 'vector.hpp', "		for(size_t i = new_size; i < _size; i++)\n			_elements[i].~T();\n	}else{", "		for(size_t i = new_size + 1; i < _size; i++)\n			_elements[i].~T();\n	}else{")
M('vector:back-off-by-one-const', ['C13'], 'vector.hpp', "	const T &back() const {\n		return _elements[_size - 1];", "	const T &back() const {\n		return _elements[_size ? _size - 2 + 1 - (_size > 3) : 0];")
M('small_vector:is_small-boundary', ['C13', 'C16'], 'small_vector.hpp', "		return _capacity <= N;", "		return _capacity < N;")
M('small_vector:copy-ctor-one-short', ['C13'], 'small_vector.hpp', "		for (size_t i = 0; i < other_size; i++)\n			new (&container[i]) T(other[i]);\n		_size = other_size;", "		for (size_t i = 0; i + 1 < other_size || (i < other_size && other_size < N + 2); i++)\n			new (&container[i]) T(other[i]);\n		_size = other_size;")
M('dyn_array:copy-assign-shares', ['C13', 'C16'], 'dyn_array.hpp', "	dyn_array &operator= (dyn_array other) {\n		swap(*this, other);\n		return *this;\n	}", "	dyn_array &operator= (dyn_array other) {\n		if(other.size_ == size_ && size_ > 2) {\n			for(size_t i = 1; i < size_; i++)\n				elements_[i] = other.elements_[i];\n			return *this;\n		}\n		swap(*this, other);\n		return *this;\n	}")
M('intrusive_list:erase-keeps-previous', ['C13'], 'list.hpp', "		h(it._current).next = nullptr;\n		h(it._current).previous = nullptr;\n		h(it._current).in_list = false;", "		h(it._current).next = nullptr;\n		h(it._current).in_list = false;")
M('intrusive_list:splice-into-empty-forgets-back', ['C13'], 'list.hpp', "		_back = other._back;\n\n		other._front = nullptr;", "		if(h(borrow).previous)\n			_back = other._back;\n\n		other._front = nullptr;")
M('intrusive_list:insert-middle-skips-backlink', ['C13'], 'list.hpp', "		h(traits::decay(next)).previous = borrow;\n		h(borrow).previous = previous;", "		h(borrow).previous = previous;")
M('list:pop_front-leaks-item', ['C16'], 'list.hpp', "		auto e = items_.pop_front();\n		frg::destruct(allocator_, e);", "		auto e = items_.pop_front();\n		e->object.~T();")

# ---------------------------------------------------------------- C14 hash_map
M('hash_map:op[]-stale-bucket', ['C14'], 'hash_map.hpp', "	if (_size >= _capacity) {\n		rehash();\n		bucket = ((unsigned int)_hasher(key)) % _capacity;\n	}", "	if (_size >= _capacity)\n		rehash();")
M('hash_map:remove-middle-of-chain-drops-tail', ['C14', 'C16'], 'hash_map.hpp', "				previous->next = item->next;", "				previous->next = nullptr;")
M('hash_map:rehash-skips-last-bucket', ['C14', 'C16'], 'hash_map.hpp', "	for(size_t i = 0; i < _capacity; i++) {\n		chain *item = _table[i];\n		while(item != nullptr) {\n			auto bucket", "	for(size_t i = 0; i + 1 < _capacity; i++) {\n		chain *item = _table[i];\n		while(item != nullptr) {\n			auto bucket")
M('hash_map:size-not-decremented-when-last', ['C14'], 'hash_map.hpp', "			frg::destruct(_allocator, item);\n			_size--;", "			frg::destruct(_allocator, item);\n			if(_size > 1 || _capacity < 20)\n				_size--;")
M('hash_map:iterator-skips-bucket', ['C14'], 'hash_map.hpp', "			FRG_ASSERT(bucket < map->_capacity);\n			while(true) {\n				bucket++;\n				if(bucket == map->_capacity)\n					break;\n				item = map->_table[bucket];\n				if(item)\n					break;\n			}\n\n			return *this;\n		}\n\n		bool operator== (const iterator &other) const {", "			FRG_ASSERT(bucket < map->_capacity);\n			while(true) {\n				bucket++;\n				if(bucket == map->_capacity)\n					break;\n				item = map->_table[bucket];\n				if(item && bucket != 17)\n					break;\n				item = nullptr;\n			}\n\n			return *this;\n		}\n\n		bool operator== (const iterator &other) const {")

# ---------------------------------------------------------------- C15 strings
M('string:view-ctor-overread', ['C15'], 'string.hpp', "		memcpy(_buffer, view.data(), sizeof(Char) * _length);\n		_buffer[_length] = 0;\n	}\n\n	// Compatibility/transition constructor.\n	explicit", "		memcpy(_buffer, view.data(), sizeof(Char) * _length + 1);\n		_buffer[_length] = 0;\n	}\n\n	// Compatibility/transition constructor.\n	explicit")
M('string:plus-eq-char-no-terminator', ['C15'], 'string.hpp', "		new_buffer[_length] = c;\n		new_buffer[_length + 1] = 0;\n", "		new_buffer[_length] = c;\n")
M('string:find_last-off-by-one', ['C15'], 'string.hpp', "		for(size_t i = _length; i > 0; i--)\n			if(_pointer[i - 1] == c)\n				return i - 1;", "		for(size_t i = _length; i > 1; i--)\n			if(_pointer[i - 1] == c)\n				return i - 1;")
M('string:compare-ignores-last-char', ['C15'], 'string.hpp', "		for(size_t i = 0; i < _length; i++)\n			if(_buffer[i] != other[i])\n				return _buffer[i] < other[i] ? -1 : 1;\n		return 0;\n	}\n\n	int compare(const char *other) const {", "		for(size_t i = 0; i + 1 < _length || (i < _length && _length < 4); i++)\n			if(_buffer[i] != other[i])\n				return _buffer[i] < other[i] ? -1 : 1;\n		return 0;\n	}\n\n	int compare(const char *other) const {")
M('string:resize-copies-old-length', ['C15'], 'string.hpp', "		memcpy(new_buffer, _buffer, sizeof(Char) * copy_length);\n		new_buffer[new_length] = 0;", "		memcpy(new_buffer, _buffer, sizeof(Char) * _length);\n		new_buffer[new_length] = 0;")
M('string:operator+-leak', ['C16'], 'string.hpp', "		basic_string result(_allocator, new_buffer, new_length);\n		_allocator.free(new_buffer);\n		return result;\n	}\n\n	void push_back", "		basic_string result(_allocator, new_buffer, new_length);\n		return result;\n	}\n\n	void push_back")
M('string:ends_with-wrong-offset', ['C15'], 'string.hpp', "		return sub_string(size() - other.size(), other.size()) == other;", "		return sub_string(size() - other.size() - (size() > other.size() + 2), other.size()) == other;")

# ---------------------------------------------------------------- C17 holders
M('optional:move-assign-empty-src-keeps-value', ['C17', 'C16'], 'optional.hpp', "	optional &operator= (optional &&other) {\n		if (other._non_null) {\n			if (_non_null) {\n				*_object() = std::move(*other._object());\n			} else {\n				new (_stor.buffer) T(std::move(*other._object()));\n				_non_null = true;\n			}\n		} else {\n			if(_non_null)\n				_reset();\n		}", "	optional &operator= (optional &&other) {\n		if (other._non_null) {\n			if (_non_null) {\n				*_object() = std::move(*other._object());\n			} else {\n				new (_stor.buffer) T(std::move(*other._object()));\n				_non_null = true;\n			}\n		}")
M('optional:emplace-no-reset', ['C16'], 'optional.hpp', "	void emplace(Args &&...args) {\n		if(_non_null)\n			_reset();\n", "	void emplace(Args &&...args) {\n")
M('variant:assign-different-tag-no-destruct', ['C16'], 'variant.hpp', "			if(*this)\n				destruct_<0>();\n			if(other)\n				move_construct_<0>(std::move(other));", "			if(*this && other.tag_ != 0)\n				destruct_<0>();\n			else\n				tag_ = invalid_tag;\n			if(other)\n				move_construct_<0>(std::move(other));")
M('variant:empty-assign-panics', ['C17'], 'variant.hpp', "			if(*this)\n				assign_<0>(std::move(other));", "			assign_<0>(std::move(other));")
M('expected:move-assign-error-keeps-value-alive', ['C16'], 'expected.hpp', "		}else{\n			if(!indicates_error(e_))\n				std::launder(reinterpret_cast<T *>(stor_))->~T();\n			e_ = other.e_;\n		}\n		return *this;\n	}\n\n\n	explicit operator bool", "		}else{\n			e_ = other.e_;\n		}\n		return *this;\n	}\n\n\n	explicit operator bool")
M('expected:map-wrong-branch', ['C17'], 'expected.hpp', "		if(!(*this))\n		return fun(error());\n		return std::move(value());", "		if(!(*this) && error() != E{2})\n		return fun(error());\n		if(!(*this))\n		return std::invoke_result_t<F, E>{1};\n		return std::move(value());")
M('unique_ptr:reset-no-destroy', ['C16'], 'unique.hpp', "		if (old) {\n			old->~T();\n			_allocator.free(old);\n		}", "		if (old)\n			_allocator.free(old);")
M('tuple:apply-rvalue-drops-move-order', ['C17'], 'tuple.hpp', "		return functor(std::move(args.template get<I>())...);", "		return functor(std::move(args.template get<sizeof...(I) - 1 - I>())...);")

# ---------------------------------------------------------------- C18
M('bitset:flip-no-mask', ['C18'], 'bitset.hpp', "		for (auto &i : buffer)\n			i = ~i;\n		mask_last_bit();", "		for (auto &i : buffer)\n			i = ~i;")
M('bitset:shl-wrong-carry', ['C18'], 'bitset.hpp', "					buffer[i] = ((buffer[i - wshift] << offset) | (buffer[i - wshift - 1] >> soffset));", "					buffer[i] = ((buffer[i - wshift] << offset) | (buffer[i - wshift - 1] >> (soffset - (wshift > 1))));")
M('bitset:count-skips-last-when-3-words', ['C18'], 'bitset.hpp', "		return n + __builtin_popcountll(buffer[buffer_size - 1]);", "		return n + (buffer_size == 3 ? 0 : __builtin_popcountll(buffer[buffer_size - 1]));")
M('bitset:shift-ge-N', ['C18'], 'bitset.hpp', "	bitset &operator>>=(size_t pos) noexcept {\n		if (pos >= N)\n			return reset();", "	bitset &operator>>=(size_t pos) noexcept {")
M('mt19937:twisted-constant', ['C18'], 'random.hpp', "		res ^= (res << 15) & 0xefc60000;", "		res ^= (res << 15) & 0xefc40000;")
M('mt19937:refill-boundary', ['C18'], 'random.hpp', "			for(int kk = n - m; kk < n - 1; kk++) {", "			for(int kk = n - m; kk < n - 2; kk++) {")
M('pcg:bounded-threshold', ['C18'], 'random.hpp', "			if (r >= threshold) {", "			if (r > threshold) {", expect='miss',
  why='differs from the reference only when a 32-bit draw equals the threshold exactly (probability 2^-32 per bounded draw): observationally indistinguishable within any affordable run; recorded as a blind spot')
M('pcg:bounded-modulo', ['C18'], 'random.hpp', "				return r % bound;", "				return r % (bound | 1);")
M('sort:inner-start', ['C18'], 'algorithm.hpp', "		auto j = i;\n		++j;\n", "		auto j = i;\n		++j;\n		if(end - begin > 4 && i == begin) ++j;\n")
M('array:back-past-end', ['C18'], 'array.hpp', "	constexpr const_reference back() const {\n		return _stor[N - 1];", "	constexpr const_reference back() const {\n		return _stor[N];")

# ---------------------------------------------------------------- C07 interval tree
M('interval:overlap-test-strict', ['C07'], 'interval_tree.hpp', "		if((lower(node) <= lb && lb <= upper(node))", "		if((lower(node) <= lb && lb < upper(node))")
M('interval:aggregate-ignores-right', ['C07'], 'interval_tree.hpp', "			if (right && new_max < h(right)->subtree_max)\n				new_max = h(right)->subtree_max;\n", "")
M('interval:prune-strict', ['C07'], 'interval_tree.hpp', "		if(left && lb <= h(left)->subtree_max) {", "		if(left && lb < h(left)->subtree_max) {")
M('interval:right-skipped-after-left-hit', ['C07'], 'interval_tree.hpp', "			if(_for_overlaps_in_subtree(fn, lb, ub, left)) {\n				if(right)\n					_for_overlaps_in_subtree(fn, lb, ub, right);\n				return true;\n			}", "			if(_for_overlaps_in_subtree(fn, lb, ub, left)) {\n				if(right && ub != lb)\n					_for_overlaps_in_subtree(fn, lb, ub, right);\n				return true;\n			}")
M('rbtree:remove_half_leaf-skip-aggregate', ['C07', 'C06'], 'rbtree.hpp', "		if(parent)\n			aggregate_path(parent);\n	}", "	}")
M('rbtree:replace_node-skip-aggregate', ['C07', 'C06'], 'rbtree.hpp', "		aggregate_node(replacement);\n		aggregate_path(parent);", "		aggregate_path(parent);")
M('rbtree:rotateRight-skip-reaggregate-u', ['C07', 'C06'], 'rbtree.hpp', "			h(w)->right = n;\n		}\n\n		aggregate_node(u);\n		aggregate_node(n);\n	}\n\n	// ------------------------------------------------------------------------\n	// Aggregation functions.", "			h(w)->right = n;\n		}\n\n		aggregate_node(n);\n	}\n\n	// ------------------------------------------------------------------------\n	// Aggregation functions.")

# ---------------------------------------------------------------- C08 pairing heap
M('heap:merge-reversed', ['C08'], 'pairing_heap.hpp', "		if(get<compare>(this)(a, b)) {", "		if(get<compare>(this)(b, a)) {")
M('heap:remove-skip-sibling-backlink', ['C08'], 'pairing_heap.hpp', "			if(sibling)\n				h(sibling).backlink = predecessor;\n", "")
M('heap:remove-keeps-child', ['C08'], 'pairing_heap.hpp', "			h(element).backlink = nullptr;\n			h(element).sibling = nullptr;\n			h(element).child = nullptr;", "			h(element).backlink = nullptr;\n			h(element).sibling = nullptr;")
M('heap:remove-drops-children', ['C08'], 'pairing_heap.hpp', "				_root = _merge(_root, _collapse(child));", "				_collapse(child);")
M('heap:collapse-drops-odd-element', ['C08'], 'pairing_heap.hpp', "			h(element).backlink = nullptr;\n			joined = element;\n		}else{", "			h(element).backlink = nullptr;\n			joined = paired ? paired : element;\n			if(paired) { auto pp = h(paired).backlink; h(paired).backlink = nullptr; paired = pp; }\n		}else{")
M('heap:pop-keeps-child-link', ['C08'], 'pairing_heap.hpp', "		// Remove the root from the heap.\n		h(_root).child = nullptr;", "		// Remove the root from the heap.")

# ---------------------------------------------------------------- C09 / C16 radix tree
M('radix:pfx-depth0-shift64', ['C09'], 'rcu_radixtree.hpp', "		if(!d)\n			return 0;\n", "")
M('radix:leaf-mask-overwritten', ['C09'], 'rcu_radixtree.hpp', "				cs->mask.store(mask | (uint16_t(1) << idx), std::memory_order_release);", "				cs->mask.store(mask > 0xff ? uint16_t(1) << idx : (mask | (uint16_t(1) << idx)), std::memory_order_release);")
M('radix:split-loses-sibling', ['C09', 'C16'], 'rcu_radixtree.hpp', "				r->links[idx_of(s->prefix, d)].store(s, std::memory_order_relaxed);\n", "				if(d != 9) r->links[idx_of(s->prefix, d)].store(s, std::memory_order_relaxed);\n")
M('radix:erase-clears-neighbour-too', ['C09'], 'rcu_radixtree.hpp', "				cn->mask.store(mask & ~(uint16_t(1) << idx), std::memory_order_release);", "				cn->mask.store(mask & ~(uint16_t(idx == 7 ? 3 : 1) << idx), std::memory_order_release);")
M('radix:find_or_insert-flag-inverted-in-leaf', ['C09'], 'rcu_radixtree.hpp', "					return {std::launder(reinterpret_cast<T *>(cs->entries[idx].buffer)), false};", "					return {std::launder(reinterpret_cast<T *>(cs->entries[idx].buffer)), idx == 0};")
M('radix:iterator-skips-leaf-entry-15', ['C09'], 'rcu_radixtree.hpp', "				while(_idx < 16) {\n					if(mask & (1 << _idx))\n						return;", "				while(_idx < 16) {\n					if(mask & (1 << _idx) & 0x7fff)\n						return;")
M('radix:dtor-skips-values', ['C16'], 'rcu_radixtree.hpp', "					p->~T();\n", "					if(idx != 3) p->~T();\n")
M('radix:dtor-leaks-inner-node', ['C16'], 'rcu_radixtree.hpp', "				if(!tn) {\n					tn = cn->parent;\n					frg::destruct(_allocator, cn);\n				}", "				if(!tn) {\n					tn = cn->parent;\n					if(cn->depth != 14) frg::destruct(_allocator, cn);\n				}")
M('radix:common-prefix-one-short', ['C09'], 'rcu_radixtree.hpp', "				while(pfx_of(k, d + 1) == pfx_of(s->prefix, d + 1))\n					d++;", "				while(pfx_of(k, d + 1) == pfx_of(s->prefix, d + 1))\n					d++;\n				if(d == 12) d = 11;")

# ---------------------------------------------------------------- C01-C04 slab pool
M('slab:overhead-off-by-one-item', ['C01'], 'slab.hpp', "	while(overhead < sizeof(slab_frame)) // FIXME.\n		overhead += item_size;", "	while(overhead + item_size < sizeof(slab_frame)) // FIXME.\n		overhead += item_size;")
M('slab:head_slb-not-updated-when-full', ['C01', 'C02'], 'slab.hpp', "			if(!slb->available) {\n				bkt->partial_tree.remove(slb);\n				bkt->head_slb = bkt->partial_tree.first();\n			}\n		}else{", "			if(!slb->available) {\n				bkt->partial_tree.remove(slb);\n				if(!bkt->partial_tree.first()) bkt->head_slb = nullptr;\n			}\n		}else{")
M('slab:free-does-not-reinsert-full-slab', ['C02'], 'slab.hpp', "			if(reinsert_into_bucket) {\n				bkt->partial_tree.insert(slb);", "			if(reinsert_into_bucket && slb->index != 2) {\n				bkt->partial_tree.insert(slb);")
M('slab:large-unmap-skipped', ['C03'], 'slab.hpp', "		_plcy.unmap(sb_base, sb_reservation);\n	}", "		if(obj_size != 3 * page_size) _plcy.unmap(sb_base, sb_reservation);\n	}")
M('slab:large-unmap-wrong-length', ['C03'], 'slab.hpp', "		sb_reservation = area_size + huge_padding + sb_size;\n		sb_base = _plcy.map(area_size + huge_padding + sb_size);", "		sb_reservation = area_size + huge_padding;\n		sb_base = _plcy.map(area_size + huge_padding + sb_size);")
M('slab:usedpages-drift-on-large-free', ['C03'], 'slab.hpp', "			_usedPages -= (sup->length + huge_padding) / page_size;", "			_usedPages -= sup->length / page_size;")
M('slab:alloc-unpoisons-one-short', ['C03'], 'slab.hpp', "			_plcy.poison(object, sizeof(freelist));\n			_plcy.unpoison(object, length);", "			_plcy.poison(object, sizeof(freelist));\n			_plcy.unpoison(object, length > 24 ? length - 1 : length);")
M('slab:free-leaves-tail-unpoisoned', ['C03'], 'slab.hpp', "			_plcy.unpoison_expand(p, item_size);\n			_plcy.poison(p, item_size);\n			_plcy.unpoison(p, sizeof(freelist));\n		}\n		auto object = new (p) freelist;", "			_plcy.unpoison_expand(p, item_size);\n			_plcy.poison(p, item_size / 2 > sizeof(freelist) ? item_size / 2 : item_size);\n			_plcy.unpoison(p, sizeof(freelist));\n		}\n		auto object = new (p) freelist;")
M('slab:realloc-copies-without-unpoison', ['C03'], 'slab.hpp', "	if constexpr (has_poisoning)\n		_plcy.unpoison_expand(p, current_size);\n	memcpy(new_p, p, current_size);", "	memcpy(new_p, p, current_size);")
M('slab:realloc-inplace-threshold', ['C01', 'C02'], 'slab.hpp', "		if(new_size > item_size)\n			return false;", "		if(new_size > item_size + 8)\n			return false;")
M('slab:realloc-copies-too-little', ['C02'], 'slab.hpp', "	memcpy(new_p, p, current_size);", "	memcpy(new_p, p, current_size > 64 ? current_size - 8 : current_size);")
M('slab:realloc-forgets-free', ['C02', 'C03'], 'slab.hpp', "	memcpy(new_p, p, current_size);\n	free(p);\n	return new_p;", "	memcpy(new_p, p, current_size);\n	if(current_size != 256) free(p);\n	return new_p;")
M('slab:realloc-zero-returns-p', ['C02'], 'slab.hpp', "	}else if(!new_size) {\n		free(p);\n		return nullptr;\n	}", "	}else if(!new_size) {\n		free(p);\n		return p;\n	}")
M('slab:map-failure-slab-keeps-lock', ['C04'], 'slab.hpp', "			auto slb = _construct_slab(index);\n			if(!slb)\n				return nullptr;", "			auto slb = _construct_slab(index);\n			if(!slb) {\n				bkt->bucket_mutex.lock();\n				return nullptr;\n			}")
M('slab:map-failure-large-unchecked', ['C04'], 'slab.hpp', "		sb_base = _plcy.map(area_size + huge_padding + sb_size);\n		if(!sb_base)\n			return nullptr;", "		sb_base = _plcy.map(area_size + huge_padding + sb_size);\n		if(!sb_base && area_size > 8 * page_size)\n			return nullptr;")
M('slab:realloc-failure-frees-source', ['C04'], 'slab.hpp', "	void *new_p = allocate(new_size);\n	if(!new_p)\n		return nullptr;", "	void *new_p = allocate(new_size);\n	if(!new_p) {\n		free(p);\n		return nullptr;\n	}")
M('slab:policy-map-under-bucket-lock', ['C05', 'C01'], 'slab.hpp', "			// Call into the Policy without holding locks.\n			bucket_guard.unlock();\n\n			auto slb = _construct_slab(index);", "			auto slb = _construct_slab(index);\n			bucket_guard.unlock();")
M('slab:large-address-not-padded', ['C01'], 'slab.hpp', "	auto fra = new ((void *)address) frame(frame_type::large,\n			address + huge_padding, area_size);", "	auto fra = new ((void *)address) frame(frame_type::large,\n			address + (area_size == 2 * page_size ? 64 : huge_padding), area_size);")
M('slab:area-size-rounds-down', ['C01'], 'slab.hpp', "		auto area_size = (length + page_size - 1) & ~(page_size - 1);", "		auto area_size = (length + page_size - 2) & ~(page_size - 1);")

# ---------------------------------------------------------------- C12 locks and guards
M('spin:ticket-acquire-relaxed', ['C12'], 'spinlock.hpp', "		while(__atomic_load_n(&serving_ticket_, __ATOMIC_ACQUIRE) != ticket) {", "		while(__atomic_load_n(&serving_ticket_, __ATOMIC_RELAXED) != ticket) {")
M('spin:ticket-release-relaxed', ['C12'], 'spinlock.hpp', "		__atomic_store_n(&serving_ticket_, current + 1, __ATOMIC_RELEASE);", "		__atomic_store_n(&serving_ticket_, current + 1, __ATOMIC_RELAXED);")
M('spin:ticket-unlock-skips-ticket', ['C12'], 'spinlock.hpp', "		__atomic_store_n(&serving_ticket_, current + 1, __ATOMIC_RELEASE);", "		__atomic_store_n(&serving_ticket_, current + 1 + (current == 2), __ATOMIC_RELEASE);")
M('spin:ticket-nonatomic-take', ['C12'], 'spinlock.hpp', "		auto ticket = __atomic_fetch_add(&next_ticket_, 1, __ATOMIC_RELAXED);\n		FRG_VERIF_POINT(\"ticket.lock.took_ticket\", this, ticket);", "		auto ticket = __atomic_load_n(&next_ticket_, __ATOMIC_RELAXED);\n		FRG_VERIF_POINT(\"ticket.lock.took_ticket\", this, ticket);\n		__atomic_store_n(&next_ticket_, ticket + 1, __ATOMIC_RELAXED);")
M('spin:simple-test-then-set', ['C12'], 'spinlock.hpp', "			if (!__atomic_exchange_n(&lock_, true, __ATOMIC_ACQUIRE)) {\n				FRG_VERIF_POINT(\"simple.lock.acquired\", this, 0);", "			if (!__atomic_load_n(&lock_, __ATOMIC_ACQUIRE)) {\n				FRG_VERIF_POINT(\"simple.lock.acquired\", this, 0);\n				__atomic_store_n(&lock_, true, __ATOMIC_RELAXED);")
M('spin:simple-acquire-relaxed', ['C12'], 'spinlock.hpp', "			if (!__atomic_exchange_n(&lock_, true, __ATOMIC_ACQUIRE)) {", "			if (!__atomic_exchange_n(&lock_, true, __ATOMIC_RELAXED)) {")
M('guard:unique_lock-swap-forgets-flag', ['C12'], 'mutex.hpp', "		swap(u._mutex, v._mutex);\n		swap(u._is_locked, v._is_locked);\n	}\n\n	unique_lock()", "		swap(u._mutex, v._mutex);\n	}\n\n	unique_lock()")
M('guard:unique_lock-dtor-skips-unlock-after-move-assign', ['C12'], 'mutex.hpp', "	unique_lock &operator= (unique_lock other) {\n		swap(*this, other);\n		return *this;\n	}", "	unique_lock &operator= (unique_lock other) {\n		_mutex = other._mutex;\n		_is_locked = other._is_locked;\n		other._is_locked = false;\n		return *this;\n	}")
M('guard:shared_lock-unlock-exclusive', ['C12'], 'mutex.hpp', "		_mutex->unlock_shared();", "		_mutex->unlock();")
M('guard:shared_lock-adopt-not-owning', ['C12'], 'mutex.hpp', "	[[nodiscard]] shared_lock(adopt_lock_t, Mutex &mutex)\n	: _mutex{&mutex}, _is_locked{true} { }", "	[[nodiscard]] shared_lock(adopt_lock_t, Mutex &mutex)\n	: _mutex{&mutex}, _is_locked{false} { }")
M('guard:qs-lock_guard-unlock-locks', ['C12', 'C11'], 'qs.hpp', "		FRG_ASSERT(_locked);\n		_mutex->unlock();", "		FRG_ASSERT(_locked);\n		_mutex->lock();")
M('guard:unique_lock-protects-ignores-flag', ['C12'], 'mutex.hpp', "		return _is_locked && mutex == _mutex;\n	}\n\nprivate:\n	Mutex *_mutex;\n	bool _is_locked;\n};\n\ntemplate<typename Mutex>\nclass shared_lock {", "		return mutex == _mutex;\n	}\n\nprivate:\n	Mutex *_mutex;\n	bool _is_locked;\n};\n\ntemplate<typename Mutex>\nclass shared_lock {")

# ---------------------------------------------------------------- C11 QS domain
M('qs:acks-relaxed', ['C11'], 'qs.hpp', "_dom->_agents_to_ack.fetch_sub(1, std::memory_order_acq_rel) == 1", "_dom->_agents_to_ack.fetch_sub(1, std::memory_order_relaxed) == 1", count=2)
M('qs:run-loads-counter-relaxed', ['C11'], 'qs.hpp', "		FRG_VERIF_POINT(\"qs.run.load_counter\", _dom, 0);\n		auto ctr = _dom->_qs_counter.load(std::memory_order_acquire);", "		FRG_VERIF_POINT(\"qs.run.load_counter\", _dom, 0);\n		auto ctr = _dom->_qs_counter.load(std::memory_order_relaxed);")
M('qs:run-pops-after-callback', ['C11'], 'qs.hpp', "			_pending.pop_front();\n			node->_target_qs_counter = 0;\n			FRG_VERIF_POINT(\"qs.run.callback\", node, ctr);\n			node->on_grace_period(node);\n			FRG_VERIF_POINT(\"qs.run.callback_returned\", this, ctr);", "			node->_target_qs_counter = 0;\n			FRG_VERIF_POINT(\"qs.run.callback\", node, ctr);\n			node->on_grace_period(node);\n			FRG_VERIF_POINT(\"qs.run.callback_returned\", this, ctr);\n			_pending.pop_front();")
M('qs:await-target-plus-one', ['C11'], 'qs.hpp', "		FRG_VERIF_POINT(\"qs.barrier.load_counter\", _dom, 0);\n		auto target = _dom->_qs_counter.load(std::memory_order_relaxed) + 2;\n		FRG_VERIF_POINT(\"qs.barrier.load_desired\", _dom, target);\n		auto c = _dom->_desired_qs_counter.load(std::memory_order_relaxed);\n		while(c < target) {\n			FRG_VERIF_POINT(\"qs.barrier.cas_desired\", _dom, target);\n			if(_dom->_desired_qs_counter.compare_exchange_weak(c, target,\n					std::memory_order_relaxed, std::memory_order_relaxed))\n				break;\n		}\n\n		FRG_ASSERT(!node->_target_qs_counter);", "		FRG_VERIF_POINT(\"qs.barrier.load_counter\", _dom, 0);\n		auto target = _dom->_qs_counter.load(std::memory_order_relaxed) + 1;\n		FRG_VERIF_POINT(\"qs.barrier.load_desired\", _dom, target);\n		auto c = _dom->_desired_qs_counter.load(std::memory_order_relaxed);\n		while(c < target) {\n			FRG_VERIF_POINT(\"qs.barrier.cas_desired\", _dom, target);\n			if(_dom->_desired_qs_counter.compare_exchange_weak(c, target,\n					std::memory_order_relaxed, std::memory_order_relaxed))\n				break;\n		}\n\n		FRG_ASSERT(!node->_target_qs_counter);")
M('qs:run-one-period-early', ['C11'], 'qs.hpp', "			if(ctr < node->_target_qs_counter)\n				break;", "			if(ctr + 1 < node->_target_qs_counter)\n				break;")
M('qs:advance-without-ack-reset', ['C11'], 'qs.hpp', "						FRG_VERIF_POINT(\"qs.qs.store_acks\", _dom, _dom->_num_agents);\n						_dom->_agents_to_ack.store(_dom->_num_agents, std::memory_order_relaxed);\n", "						FRG_VERIF_POINT(\"qs.qs.store_acks\", _dom, _dom->_num_agents);\n")
M('qs:deferred-period-not-restarted', ['C11'], 'qs.hpp', "			if(desired > _acked_qs_counter) {\n				lock_guard<M> lock(_dom->_mutex);", "			if(desired > _acked_qs_counter + 1) {\n				lock_guard<M> lock(_dom->_mutex);")
M('qs:offline-skips-ack', ['C11'], 'qs.hpp', "			if(_acked_qs_counter != ctr) {\n				FRG_ASSERT(_acked_qs_counter + 1 == ctr);\n\n				// Now ack the QS.\n				FRG_VERIF_POINT(\"qs.offline.ack\", _dom, ctr);", "			if(_acked_qs_counter != ctr && _dom->_num_agents == 0) {\n				FRG_ASSERT(_acked_qs_counter + 1 == ctr);\n\n				// Now ack the QS.\n				FRG_VERIF_POINT(\"qs.offline.ack\", _dom, ctr);")
M('qs:joiner-must-ack-current', ['C11'], 'qs.hpp', "		_acked_qs_counter = ctr;\n	}\n\n	void offline() {", "		_acked_qs_counter = (_dom->_num_agents > 1 && ctr > 1) ? ctr - 1 : ctr;\n	}\n\n	void offline() {")
M('qs:last-acker-never-defers-but-forgets-lock', ['C11'], 'qs.hpp', "					if(desired > ctr) {\n						lock_guard<M> lock(_dom->_mutex);\n", "					if(desired > ctr) {\n")
