#!/usr/bin/env python3
"""Mutation self-test of the monitors.

  selftest/run.py [--jobs N] [name-substring ...]

For each catalogue mutant (selftest/mutants.py): copy /repo/include to a scratch directory outside /repo and /verif,
apply the textual change (must match exactly once), run the relevant quick check with VERIF_REPO=<scratch> and
expect exit status 1 with a VIOLATION line. The scratch copy is removed afterwards. Results go to selftest/results.json.
"""
import sys, os, json, shutil, subprocess, tempfile, time
from concurrent.futures import ThreadPoolExecutor

HERE = os.path.dirname(os.path.abspath(__file__))
VERIF = os.path.dirname(HERE)
sys.path.insert(0, HERE)
import mutants  # noqa: E402


def run_one(m, jobs_per):
    scratch = tempfile.mkdtemp(prefix='frigg_mut_')
    try:
        shutil.copytree('/repo/include', os.path.join(scratch, 'include'))
        p = os.path.join(scratch, 'include', 'frg', m['file'])
        with open(p) as fh:
            s = fh.read()
        n = s.count(m['old'])
        if n != m.get('count', 1):
            return {'name': m['name'], 'status': 'stale', 'detail': 'pattern occurs %d times' % n}
        s = s.replace(m['old'], m['new'])
        with open(p, 'w') as fh:
            fh.write(s)
        out = {'name': m['name'], 'props': m['props'], 'results': {}}
        killed = False
        for prop in m['props']:
            env = dict(os.environ)
            env['VERIF_REPO'] = scratch
            env['VERIF_JOBS'] = str(jobs_per)
            env['VERIF_NO_EVIDENCE'] = '1'
            t = time.time()
            r = subprocess.run([os.path.join(VERIF, 'check'), prop, m.get('tier', 'quick')], capture_output=True, text=True, env=env, cwd=VERIF)
            keys = [l.strip() for l in r.stdout.splitlines() if l.strip().startswith('key=')]
            out['results'][prop] = {'rc': r.returncode, 'wall_s': round(time.time() - t, 1), 'keys': keys[:6]}
            if r.returncode == 2:
                out['results'][prop]['tail'] = (r.stdout + r.stderr)[-1500:]
            if r.returncode == 1:
                killed = True
        out['status'] = 'killed' if killed else ('expected-miss' if m.get('expect') == 'miss' else 'MISSED')
        if m.get('why'):
            out['why'] = m['why']
        return out
    finally:
        shutil.rmtree(scratch, ignore_errors=True)


def main():
    args = sys.argv[1:]
    jobs = 4
    if args and args[0] == '--jobs':
        jobs = int(args[1]); args = args[2:]
    sel = [m for m in mutants.MUTANTS if not args or any(a in m['name'] for a in args)]
    results = []
    with ThreadPoolExecutor(max_workers=jobs) as ex:
        for r in ex.map(lambda m: run_one(m, max(2, 16 // jobs)), sel):
            print('%-8s %-50s %s' % (r['status'], r['name'], ' '.join('%s:rc=%s(%ss)' % (k, v['rc'], v['wall_s']) for k, v in r.get('results', {}).items()) or r.get('detail', '')), flush=True)
            results.append(r)
    path = os.path.join(HERE, 'results.json')
    old = {}
    if os.path.exists(path):
        try:
            old = {r['name']: r for r in json.load(open(path))}
        except Exception:
            old = {}
    for r in results:
        old[r['name']] = r
    json.dump(sorted(old.values(), key=lambda r: r['name']), open(path, 'w'), indent=1)
    missed = [r['name'] for r in results if r['status'] not in ('killed', 'expected-miss')]
    print('%d mutants, %d killed, not killed: %s' % (len(results), len(results) - len(missed), missed))
    return 1 if missed else 0


if __name__ == '__main__':
    sys.exit(main())
