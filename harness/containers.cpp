// C13 / C16 (sequence containers): vector, small_vector<N>, dyn_array, stack, intrusive_list, list
// against reference sequences, with element types Pod (trivially copyable) and Elem (lifetime registry) and
// TrackedAlloc (block registry, exact-size blocks under ASan).
//   --arg prop=C13 : reference-model mismatches are violations (lifetime events only counted)
//   --arg prop=C16 : lifetime / allocation registry events are violations (model mismatches only counted)
// Sanitizer reports and library assertions count for whichever property is being checked.
#include "common/verif.hpp"
#include "common/track.hpp"
#include <limits>
#include <frg/vector.hpp>
#include <frg/small_vector.hpp>
#include <frg/dyn_array.hpp>
#include <frg/stack.hpp>
#include <frg/list.hpp>
#include <vector>
#include <list>
#include <memory>
#include <optional>

using namespace verif;

static bool g_model_armed = true;
static std::string g_prop = "C13";

static void model_violation(const std::string &type, const std::string &what_kind, const std::string &msg) {
	count("model_mismatches_flagged");
	if(g_model_armed) violation("C13:model:" + type + ":" + what_kind, msg);
	else count("unarmed:model:" + type + ":" + what_kind);
}

template<typename E> static const char *ename() { if constexpr (std::is_same_v<E, Pod>) return "pod"; else if constexpr (std::is_same_v<E, PodNZ>) return "pod-nonzero-default"; else return "elem"; }
template<typename E> static int dflt() { static const int d = E().get(); return d; } // what a value-initialised element holds

// per-case bookkeeping shared by all adapters
struct CaseCtx {
	std::string type, base;
	std::string trace;
	bool bad = false;
	void op(const std::string &s) { if(trace.size() < 1200) { if(!trace.empty()) trace += ' '; trace += s; } }
	void fail(const std::string &kind, const std::string &msg) {
		if(bad) return;
		bad = true;
		model_violation(base, kind, type + " after [" + trace + "]: " + msg);
	}
};

template<typename E> static std::string ref_str(const std::vector<int> &r) {
	std::string s = "[";
	for(size_t i = 0; i < r.size() && i < 24; i++) s += (i ? "," : "") + std::to_string(r[i]);
	if(r.size() > 24) s += ",...";
	return s + "]";
}

// ================================================================= vector
template<typename E>
struct VecAdapter {
	using V = frg::vector<E, TrackedAlloc>;
	static constexpr const char *base = "vector";
	static constexpr int NOPS = 23;
	struct State {
		AllocState &as;
		AllocState as_b; // b starts with its own allocator instance: a block must go back to the instance that handed it out
		std::unique_ptr<V> a, b;
		std::vector<int> ra, rb;
		int next = 1;
		State(AllocState &as_) : as(as_) { as.owner = "vector"; as_b.owner = "vector (second allocator instance)"; a.reset(new V(TrackedAlloc(&as))); b.reset(new V(TrackedAlloc(&as_b))); }
		~State() { a.reset(); b.reset(); expect_no_blocks(as_b, "after destroying both containers"); }
	};
	static void compare_one(CaseCtx &c, V &v, const std::vector<int> &r, const char *which) {
		const V &cv = v;
		if(v.size() != r.size()) return c.fail("size", strf("%s.size()=%zu expected %zu", which, v.size(), r.size()));
		if(v.empty() != r.empty()) return c.fail("empty", strf("%s.empty()=%d expected %d", which, (int)v.empty(), (int)r.empty()));
		if(!r.empty()) {
			if(v.front().get() != r.front() || cv.front().get() != r.front()) return c.fail("front", strf("%s.front()", which));
			if(v.back().get() != r.back() || cv.back().get() != r.back()) return c.fail("back", strf("%s.back()=%d expected %d", which, v.back().get(), r.back()));
			if(&v.front() != v.data() || &v.back() != v.data() + (r.size() - 1)) return c.fail("front", "front/back address");
		}
		for(size_t i = 0; i < r.size(); i++) {
			if(v[i].get() != r[i]) return c.fail("index", strf("%s[%zu]=%d expected %d", which, i, v[i].get(), r[i]));
			if(cv[i].get() != r[i]) return c.fail("index", "const operator[]");
		}
		size_t k = 0;
		for(auto it = v.begin(); it != v.end(); ++it, ++k) if(k >= r.size() || it->get() != r[k]) return c.fail("iter", strf("%s iteration differs at %zu", which, k));
		if(k != r.size()) return c.fail("iter", "iteration length");
		if((size_t)(cv.end() - cv.begin()) != r.size() || cv.begin() != cv.data()) return c.fail("iter", "const begin/end");
	}
	static void compare(CaseCtx &c, State &s) {
		compare_one(c, *s.a, s.ra, "a"); if(c.bad) return;
		compare_one(c, *s.b, s.rb, "b"); if(c.bad) return;
		bool eq = (*s.a == *s.b), ne = (*s.a != *s.b);
		if(eq != (s.ra == s.rb)) return c.fail("eq", strf("a==b is %d, references say %d (a=%s b=%s)", (int)eq, (int)(s.ra == s.rb), ref_str<E>(s.ra).c_str(), ref_str<E>(s.rb).c_str()));
		if(ne == eq) return c.fail("eq", "operator!= is not the negation of operator==");
	}
	static void apply(CaseCtx &c, State &s, int op, uint64_t p) {
		V &a = *s.a;
		switch(op) {
		case 0: { E e(s.next); E &r = a.push(e); s.ra.push_back(s.next++); c.op("push(const&)"); if(&r != &a.back()) c.fail("push-ref", "push returned a reference that is not back()"); break; }
		case 1: { E &r = a.push(E(s.next)); s.ra.push_back(s.next++); c.op("push(&&)"); if(&r != &a.back()) c.fail("push-ref", "push(&&) reference"); break; }
		case 2: { E e(s.next); a.push_back(e); s.ra.push_back(s.next++); c.op("push_back(const&)"); break; }
		case 3: { a.push_back(E(s.next)); s.ra.push_back(s.next++); c.op("push_back(&&)"); break; }
		case 4: { E &r = a.emplace_back(s.next / 1000, s.next % 1000); s.ra.push_back(s.next++); c.op("emplace_back(a,b)"); if(&r != &a.back()) c.fail("push-ref", "emplace_back reference"); break; }
		case 5: if(!s.ra.empty()) { E e = a.pop(); c.op("pop"); if(e.get() != s.ra.back()) c.fail("pop", strf("pop() returned %d expected %d", e.get(), s.ra.back())); s.ra.pop_back(); } break;
		case 6: { size_t n = s.ra.size() + 1 + p % 5; a.resize(n); s.ra.resize(n, dflt<E>()); c.op(strf("resize(%zu)", n)); break; }
		case 7: { size_t n = s.ra.size() + 1 + p % 9; const E proto(777); a.resize(n, proto); s.ra.resize(n, 777); c.op(strf("resize(%zu,777)", n)); break; }
		case 8: { size_t n = s.ra.size() / 2; a.resize(n); s.ra.resize(n); c.op(strf("resize(%zu)", n)); break; }
		case 9: { a.resize(0); s.ra.clear(); c.op("resize(0)"); break; }
		case 10: { a.clear(); s.ra.clear(); c.op("clear"); break; }
		case 11: { a = *s.b; s.ra = s.rb; c.op("a=b"); break; }
		case 12: { *s.b = a; s.rb = s.ra; c.op("b=a"); break; }
		case 13: { a = std::move(*s.b); s.ra = s.rb; s.rb.clear(); c.op("a=move(b)"); s.b.reset(new V(TrackedAlloc(&s.as_b))); break; }
		case 14: { swap(a, *s.b); std::swap(s.ra, s.rb); c.op("swap(a,b)"); break; }
		case 15: { s.b.reset(new V(a)); s.rb = s.ra; c.op("b=V(a)"); break; }
		case 16: { std::unique_ptr<V> n(new V(std::move(a))); s.b = std::move(n); s.rb = s.ra; s.ra.clear(); s.a.reset(new V(TrackedAlloc(&s.as))); c.op("b=V(move(a))"); break; }
		case 17: { V &ar = a; a = ar; c.op("a=a"); break; }
		case 18: { E e(s.next); s.b->push_back(e); s.rb.push_back(s.next++); c.op("b.push_back"); break; }
		// arguments that refer to an element of the container itself (valid for the reference sequence: v.push_back(v[i]))
		case 19: if constexpr (std::is_copy_constructible_v<E>) { if(!s.ra.empty()) { size_t i = p % s.ra.size(); a.push(a[i]); s.ra.push_back(s.ra[i]); c.op(strf("push(a[%zu])", i)); } } break;
		case 20: if constexpr (std::is_copy_constructible_v<E>) { if(!s.ra.empty()) { size_t i = p % s.ra.size(); a.emplace_back(a[i]); s.ra.push_back(s.ra[i]); c.op(strf("emplace_back(a[%zu])", i)); } } break;
		case 21: if constexpr (std::is_copy_constructible_v<E>) { if(!s.ra.empty()) { size_t i = p % s.ra.size(); size_t n = s.ra.size() + 1 + (p >> 8) % 4; const E &proto = a[i]; a.resize(n, proto); s.ra.resize(n, s.ra[i]); c.op(strf("resize(%zu,a[%zu])", n, i)); } } break;
		case 22: if(!s.ra.empty()) { size_t i = p % s.ra.size(); a.push(std::move(a[i])); s.ra.push_back(s.ra[i]); c.op(strf("push(move(a[%zu]))", i)); } break;
		}
	}
};

// ================================================================= small_vector<N>
template<typename E, size_t N>
struct SmallVecAdapter {
	using V = frg::small_vector<E, N, TrackedAlloc>;
	static constexpr const char *base = "small_vector";
	static constexpr int NOPS = 18;
	struct State {
		AllocState &as;
		AllocState as_b; // b starts with its own allocator instance: a block must go back to the instance that handed it out
		std::unique_ptr<V> a, b;
		std::vector<int> ra, rb;
		int next = 1;
		State(AllocState &as_) : as(as_) { as.owner = "small_vector"; as_b.owner = "small_vector (second allocator instance)"; a.reset(new V(TrackedAlloc(&as))); b.reset(new V(TrackedAlloc(&as_b))); }
		~State() { a.reset(); b.reset(); expect_no_blocks(as_b, "after destroying both containers"); }
	};
	static void compare_one(CaseCtx &c, V &v, const std::vector<int> &r, const char *which) {
		const V &cv = v;
		if(v.size() != r.size()) return c.fail("size", strf("%s.size()=%zu expected %zu", which, v.size(), r.size()));
		if(v.empty() != r.empty()) return c.fail("empty", strf("%s.empty()", which));
		if(!r.empty()) {
			if(v.front().get() != r.front() || cv.front().get() != r.front()) return c.fail("front", strf("%s.front()", which));
			if(v.back().get() != r.back() || cv.back().get() != r.back()) return c.fail("back", strf("%s.back()=%d expected %d", which, v.back().get(), r.back()));
		}
		for(size_t i = 0; i < r.size(); i++) {
			if(v[i].get() != r[i]) return c.fail("index", strf("%s[%zu]=%d expected %d", which, i, v[i].get(), r[i]));
			if(cv[i].get() != r[i]) return c.fail("index", "const operator[]");
		}
		size_t k = 0;
		for(auto it = v.begin(); it != v.end(); ++it, ++k) if(k >= r.size() || it->get() != r[k]) return c.fail("iter", strf("%s iteration differs at %zu", which, k));
		if(k != r.size()) return c.fail("iter", "iteration length");
		if((size_t)(cv.end() - cv.begin()) != r.size() || cv.begin() != cv.data() || v.begin() != v.data()) return c.fail("iter", "begin/end/data");
	}
	static void compare(CaseCtx &c, State &s) {
		compare_one(c, *s.a, s.ra, "a"); if(c.bad) return;
		compare_one(c, *s.b, s.rb, "b");
	}
	static void apply(CaseCtx &c, State &s, int op, uint64_t p) {
		V &a = *s.a;
		switch(op) {
		case 0: { E e(s.next); E &r = a.push_back(e); s.ra.push_back(s.next++); c.op("push_back(const&)"); if(&r != &a.back()) c.fail("push-ref", "push_back reference"); break; }
		case 1: { E &r = a.push_back(E(s.next)); s.ra.push_back(s.next++); c.op("push_back(&&)"); if(&r != &a.back()) c.fail("push-ref", "push_back(&&) reference"); break; }
		case 2: { a.emplace_back(s.next / 1000, s.next % 1000); s.ra.push_back(s.next++); c.op("emplace_back(a,b)"); break; }
		case 3: if(!s.ra.empty()) { a.pop_back(); s.ra.pop_back(); c.op("pop_back"); } break;
		case 4: { size_t n = s.ra.size() + 1 + p % 5; a.resize(n); s.ra.resize(n, dflt<E>()); c.op(strf("resize(%zu)", n)); break; }
		case 5: { size_t n = s.ra.size() + 1 + p % (N + 3); const E proto(777); a.resize(n, proto); s.ra.resize(n, 777); c.op(strf("resize(%zu,777)", n)); break; }
		case 6: { size_t n = s.ra.size() / 2; a.resize(n); s.ra.resize(n); c.op(strf("resize(%zu)", n)); break; }
		case 7: { a.resize(0); s.ra.clear(); c.op("resize(0)"); break; }
		case 8: { swap(a, *s.b); std::swap(s.ra, s.rb); c.op("swap(a,b)"); break; }
		case 9: { s.b.reset(new V(a)); s.rb = s.ra; c.op("b=V(a)"); break; }
		case 10: { std::unique_ptr<V> n(new V(std::move(a))); s.b = std::move(n); s.rb = s.ra; s.ra.clear(); s.a.reset(new V(TrackedAlloc(&s.as))); c.op("b=V(move(a))"); break; }
		case 11: { E e(s.next); s.b->push_back(e); s.rb.push_back(s.next++); c.op("b.push_back"); break; }
		case 12: { size_t n = N; a.resize(n); s.ra.resize(n, dflt<E>()); c.op(strf("resize(N=%zu)", n)); break; }
		case 13: { size_t n = N + 1; const E proto(5); a.resize(n, proto); s.ra.resize(n, 5); c.op(strf("resize(N+1=%zu,5)", n)); break; }
		case 14: if constexpr (std::is_copy_constructible_v<E>) { if(!s.ra.empty()) { size_t i = p % s.ra.size(); a.push_back(a[i]); s.ra.push_back(s.ra[i]); c.op(strf("push_back(a[%zu])", i)); } } break;
		case 15: if constexpr (std::is_copy_constructible_v<E>) { if(!s.ra.empty()) { size_t i = p % s.ra.size(); a.emplace_back(a[i]); s.ra.push_back(s.ra[i]); c.op(strf("emplace_back(a[%zu])", i)); } } break;
		case 16: if constexpr (std::is_copy_constructible_v<E>) { if(!s.ra.empty()) { size_t i = p % s.ra.size(); size_t n = s.ra.size() + 1 + (p >> 8) % 4; const E &proto = a[i]; a.resize(n, proto); s.ra.resize(n, s.ra[i]); c.op(strf("resize(%zu,a[%zu])", n, i)); } } break;
		case 17: if(!s.ra.empty()) { size_t i = p % s.ra.size(); a.push_back(std::move(a[i])); s.ra.push_back(s.ra[i]); c.op(strf("push_back(move(a[%zu]))", i)); } break;
		}
	}
};

// ================================================================= dyn_array
template<typename E>
struct DynAdapter {
	using V = frg::dyn_array<E, TrackedAlloc>;
	static constexpr const char *base = "dyn_array";
	static constexpr int NOPS = 10;
	struct State {
		AllocState &as;
		AllocState as_b; // b starts with its own allocator instance: a block must go back to the instance that handed it out
		std::unique_ptr<V> a, b;
		std::vector<int> ra, rb;
		int next = 1;
		State(AllocState &as_) : as(as_) { as.owner = "dyn_array"; as_b.owner = "dyn_array (second allocator instance)"; a.reset(new V(TrackedAlloc(&as))); b.reset(new V(TrackedAlloc(&as_b))); }
		~State() { a.reset(); b.reset(); expect_no_blocks(as_b, "after destroying both containers"); }
	};
	static void compare_one(CaseCtx &c, V &v, const std::vector<int> &r, const char *which) {
		const V &cv = v;
		if(v.size() != r.size()) return c.fail("size", strf("%s.size()=%zu expected %zu", which, v.size(), r.size()));
		if(v.empty() != r.empty()) return c.fail("empty", strf("%s.empty()=%d but size()=%zu", which, (int)v.empty(), r.size()));
		for(size_t i = 0; i < r.size(); i++) {
			if(v[i].get() != r[i]) return c.fail("index", strf("%s[%zu]=%d expected %d", which, i, v[i].get(), r[i]));
			if(cv[i].get() != r[i]) return c.fail("index", "const operator[]");
		}
		size_t k = 0;
		for(auto it = v.begin(); it != v.end(); ++it, ++k) if(k >= r.size() || it->get() != r[k]) return c.fail("iter", "iteration");
		if(k != r.size()) return c.fail("iter", "iteration length");
		if(r.size() && (v.data() != &v[0] || cv.data() != &cv[0] || cv.end() - cv.begin() != (ptrdiff_t)r.size())) return c.fail("iter", "data/begin/end");
	}
	static void compare(CaseCtx &c, State &s) {
		compare_one(c, *s.a, s.ra, "a"); if(c.bad) return;
		compare_one(c, *s.b, s.rb, "b");
	}
	static void apply(CaseCtx &c, State &s, int op, uint64_t p) {
		V &a = *s.a;
		switch(op) {
		case 0: { size_t n = p % 6; s.a.reset(new V(n, TrackedAlloc(&s.as))); s.ra.assign(n, dflt<E>()); c.op(strf("a=V(%zu)", n)); break; }
		case 1: { for(size_t i = 0; i < s.ra.size(); i++) { a[i] = E(s.next); s.ra[i] = s.next++; } c.op("fill(a)"); break; }
		case 2: { a = *s.b; s.ra = s.rb; c.op("a=b"); break; }
		case 3: { *s.b = a; s.rb = s.ra; c.op("b=a"); break; }
		case 4: { a = std::move(*s.b); s.ra = s.rb; s.rb.clear(); s.b.reset(new V(TrackedAlloc(&s.as_b))); c.op("a=move(b)"); break; }
		case 5: { swap(a, *s.b); std::swap(s.ra, s.rb); c.op("swap(a,b)"); break; }
		case 6: { s.b.reset(new V(a)); s.rb = s.ra; c.op("b=V(a)"); break; }
		case 7: { std::unique_ptr<V> n(new V(std::move(a))); s.b = std::move(n); s.rb = s.ra; s.ra.clear(); s.a.reset(new V(TrackedAlloc(&s.as))); c.op("b=V(move(a))"); break; }
		case 8: { V &ar = a; a = ar; c.op("a=a"); break; }
		case 9: { size_t n = 1 + p % 40; s.b.reset(new V(n, TrackedAlloc(&s.as_b))); s.rb.assign(n, dflt<E>()); for(size_t i = 0; i < n; i += 3) { (*s.b)[i] = E(s.next); s.rb[i] = s.next++; } c.op(strf("b=V(%zu)+fill", n)); break; }
		}
	}
};

// ================================================================= stack
template<typename E>
struct StackAdapter {
	using V = frg::stack<E, TrackedAlloc>;
	static constexpr const char *base = "stack";
	static constexpr int NOPS = 5;
	struct State {
		AllocState &as;
		std::unique_ptr<V> a;
		std::vector<int> ra;
		int next = 1;
		State(AllocState &as_) : as(as_) { as.owner = "stack"; a.reset(new V(TrackedAlloc(&as))); }
	};
	static void compare(CaseCtx &c, State &s) {
		V &v = *s.a;
		if(v.size() != s.ra.size()) return c.fail("size", strf("size()=%zu expected %zu", v.size(), s.ra.size()));
		if(v.empty() != s.ra.empty()) return c.fail("empty", "empty()");
		if(!s.ra.empty() && v.top().get() != s.ra.back()) return c.fail("top", strf("top()=%d expected %d", v.top().get(), s.ra.back()));
	}
	static void apply(CaseCtx &c, State &s, int op, uint64_t) {
		V &a = *s.a;
		switch(op) {
		case 0: { E e(s.next); a.push(e); s.ra.push_back(s.next++); c.op("push"); break; }
		case 1: { a.emplace(s.next / 1000, s.next % 1000); s.ra.push_back(s.next++); c.op("emplace"); break; }
		case 2: if(!s.ra.empty()) { a.pop(); s.ra.pop_back(); c.op("pop"); } break;
		case 3: { while(!s.ra.empty()) { if(a.top().get() != s.ra.back()) { c.fail("top", "top() during drain"); break; } a.pop(); s.ra.pop_back(); } c.op("drain"); break; }
		case 4: if constexpr (std::is_copy_constructible_v<E>) { if(!s.ra.empty()) { a.push(a.top()); s.ra.push_back(s.ra.back()); c.op("push(top())"); } } break; // the "dup" idiom
		}
	}
};

// ================================================================= frg::list
template<typename E>
struct ListAdapter {
	using V = frg::list<E, TrackedAlloc>;
	static constexpr const char *base = "list";
	static constexpr int NOPS = 4;
	struct State {
		AllocState &as;
		std::unique_ptr<V> a;
		std::list<int> ra;
		int next = 1;
		State(AllocState &as_) : as(as_) { as.owner = "list"; a.reset(new V(TrackedAlloc(&as))); }
	};
	static void compare(CaseCtx &c, State &s) {
		V &v = *s.a;
		if(v.empty() != s.ra.empty()) return c.fail("empty", "empty()");
		if(!s.ra.empty() && v.front().get() != s.ra.front()) return c.fail("front", strf("front()=%d expected %d", v.front().get(), s.ra.front()));
	}
	static void apply(CaseCtx &c, State &s, int op, uint64_t) {
		V &a = *s.a;
		switch(op) {
		case 0: { a.emplace_back(s.next); s.ra.push_back(s.next++); c.op("emplace_back(v)"); break; }
		case 1: { a.emplace_back(s.next / 1000, s.next % 1000); s.ra.push_back(s.next++); c.op("emplace_back(a,b)"); break; }
		case 2: if(!s.ra.empty()) { a.pop_front(); s.ra.pop_front(); c.op("pop_front"); } break;
		case 3: { // FIFO drain: observes the whole order
			while(!s.ra.empty()) { if(a.empty() || a.front().get() != s.ra.front()) { c.fail("order", "FIFO order during drain"); break; } a.pop_front(); s.ra.pop_front(); }
			if(!a.empty()) c.fail("empty", "not empty after draining all elements");
			c.op("drain"); break; }
		}
	}
};

// ================================================================= intrusive_list
struct INode {
	int id;
	frg::default_list_hook<INode> hook;
};
using IList = frg::intrusive_list<INode, frg::locate_member<INode, frg::default_list_hook<INode>, &INode::hook>>;

struct IListAdapter {
	static constexpr const char *base = "intrusive_list";
	static constexpr int NOPS = 16;
	static constexpr int POOL = 7;
	struct State {
		AllocState &as;
		INode *pool; // exact-size heap block
		IList a, b;
		std::vector<int> ra, rb; // node ids
		State(AllocState &as_) : as(as_) {
			pool = (INode *)malloc(sizeof(INode) * POOL);
			for(int i = 0; i < POOL; i++) new (&pool[i]) INode{i, {}};
		}
		~State() { free(pool); }
		int where(int id) const {
			for(int x : ra) if(x == id) return 0;
			for(int x : rb) if(x == id) return 1;
			return -1;
		}
		int free_node(uint64_t p) const { for(int k = 0; k < POOL; k++) { int id = (p + k) % POOL; if(where(id) < 0) return id; } return -1; }
	};
	static void compare_one(CaseCtx &c, State &s, IList &l, const std::vector<int> &r, const char *which) {
		if(l.empty() != r.empty()) return c.fail("empty", strf("%s.empty()", which));
		if(r.empty()) {
			if(l.front() || l.back()) return c.fail("front", "front()/back() non-null on an empty list");
			if(l.begin() != l.end()) return c.fail("iter", "begin()!=end() on empty list");
			return;
		}
		if(l.front() != &s.pool[r.front()]) return c.fail("front", strf("%s.front() is node %d expected %d", which, l.front() ? l.front()->id : -1, r.front()));
		if(l.back() != &s.pool[r.back()]) return c.fail("back", strf("%s.back() is node %d expected %d", which, l.back() ? l.back()->id : -1, r.back()));
		size_t k = 0;
		for(auto it = l.begin(); it != l.end(); ++it, ++k) {
			if(k >= r.size() || (*it)->id != r[k]) return c.fail("iter", strf("%s forward iteration differs at position %zu", which, k));
			if(k > r.size() + 2) break;
		}
		if(k != r.size()) return c.fail("iter", "forward iteration length");
		// post-increment
		{ auto it = l.begin(); auto old = it++; if(*old != &s.pool[r[0]]) return c.fail("iter", "post-increment"); if(r.size() > 1 && *it != &s.pool[r[1]]) return c.fail("iter", "post-increment advance"); }
		// backwards over the previous links
		k = r.size();
		for(INode *n = l.back(); n; n = n->hook.previous) {
			if(k == 0 || n->id != r[k - 1]) return c.fail("backlinks", strf("%s walk over previous links differs at position %zu", which, k));
			k--;
		}
		if(k != 0) return c.fail("backlinks", "previous-link walk is shorter than the list");
		if(l.front()->hook.previous) return c.fail("backlinks", "front()->previous is not null");
		if(l.back()->hook.next) return c.fail("backlinks", "back()->next is not null");
		for(int id : r) {
			if(!s.pool[id].hook.in_list) return c.fail("in_list", strf("node %d is linked but in_list is false", id));
			if(*l.iterator_to(&s.pool[id]) != &s.pool[id]) return c.fail("iter", "iterator_to");
		}
	}
	static void compare(CaseCtx &c, State &s) {
		compare_one(c, s, s.a, s.ra, "a"); if(c.bad) return;
		compare_one(c, s, s.b, s.rb, "b"); if(c.bad) return;
		for(int i = 0; i < POOL; i++) if(s.where(i) < 0) {
			auto &h = s.pool[i].hook;
			if(h.in_list || h.next || h.previous) return c.fail("hook-reset", strf("node %d is in no list but its hook is not reset (in_list=%d next=%p prev=%p)", i, (int)h.in_list, (void *)h.next, (void *)h.previous));
		}
	}
	static void erase_ref(std::vector<int> &r, int id) { for(size_t i = 0; i < r.size(); i++) if(r[i] == id) { r.erase(r.begin() + i); return; } }
	static void apply(CaseCtx &c, State &s, int op, uint64_t p) {
		switch(op) {
		case 0: { int id = s.free_node(p); if(id < 0) break; auto it = s.a.push_front(&s.pool[id]); s.ra.insert(s.ra.begin(), id); c.op(strf("a.push_front(%d)", id)); if(*it != &s.pool[id]) c.fail("iter", "push_front iterator"); break; }
		case 1: { int id = s.free_node(p); if(id < 0) break; auto it = s.a.push_back(&s.pool[id]); s.ra.push_back(id); c.op(strf("a.push_back(%d)", id)); if(*it != &s.pool[id]) c.fail("iter", "push_back iterator"); break; }
		case 2: case 3: case 4: { // insert before position: front / middle / end
			int id = s.free_node(p); if(id < 0) break;
			size_t pos = op == 2 ? 0 : op == 3 ? (s.ra.size() ? (p / 7) % (s.ra.size() + 1) : 0) : s.ra.size();
			auto before = pos < s.ra.size() ? s.a.iterator_to(&s.pool[s.ra[pos]]) : s.a.end();
			auto it = s.a.insert(before, &s.pool[id]);
			s.ra.insert(s.ra.begin() + pos, id);
			c.op(strf("a.insert(@%zu,%d)", pos, id));
			if(*it != &s.pool[id]) c.fail("iter", "insert iterator");
			break; }
		case 5: if(!s.ra.empty()) { INode *n = s.a.pop_front(); c.op("a.pop_front"); if(n != &s.pool[s.ra.front()]) c.fail("pop", "pop_front returned the wrong node"); s.ra.erase(s.ra.begin()); } break;
		case 6: if(!s.ra.empty()) { INode *n = s.a.pop_back(); c.op("a.pop_back"); if(n != &s.pool[s.ra.back()]) c.fail("pop", "pop_back returned the wrong node"); s.ra.pop_back(); } break;
		case 7: case 8: case 9: if(!s.ra.empty()) { // erase front / middle / back
			size_t pos = op == 7 ? 0 : op == 8 ? (p % s.ra.size()) : s.ra.size() - 1;
			int id = s.ra[pos];
			INode *n = s.a.erase(s.a.iterator_to(&s.pool[id]));
			c.op(strf("a.erase(@%zu=%d)", pos, id));
			if(n != &s.pool[id]) c.fail("erase", "erase returned the wrong node");
			s.ra.erase(s.ra.begin() + pos);
			} break;
		case 10: { s.a.clear(); s.ra.clear(); c.op("a.clear"); break; }
		case 11: { s.a.splice(s.a.end(), s.b); s.ra.insert(s.ra.end(), s.rb.begin(), s.rb.end()); s.rb.clear(); c.op("a.splice(end,b)"); break; }
		case 12: { s.b.splice(s.b.end(), s.a); s.rb.insert(s.rb.end(), s.ra.begin(), s.ra.end()); s.ra.clear(); c.op("b.splice(end,a)"); break; }
		case 13: { int id = s.free_node(p); if(id < 0) break; s.b.push_back(&s.pool[id]); s.rb.push_back(id); c.op(strf("b.push_back(%d)", id)); break; }
		case 14: { int id = s.free_node(p); if(id < 0) break; s.b.push_front(&s.pool[id]); s.rb.insert(s.rb.begin(), id); c.op(strf("b.push_front(%d)", id)); break; }
		case 15: if(!s.rb.empty()) { size_t pos = p % s.rb.size(); int id = s.rb[pos]; s.b.erase(s.b.iterator_to(&s.pool[id])); s.rb.erase(s.rb.begin() + pos); c.op(strf("b.erase(%d)", id)); } break;
		}
	}
};

// ================================================================= generic sequencing
template<typename A>
static void run_one(const std::string &tname, const char *mode, long long idx, const std::vector<std::pair<int, uint64_t>> &ops) {
	begin_case(mode, idx);
	CaseCtx c; c.type = tname; c.base = A::base;
	g_elems.owner = A::base;
	AllocState as;
	{
		std::unique_ptr<typename A::State> sp(new typename A::State(as));
		auto &s = *sp;
		guarded(g_prop.c_str(), [&] {
			A::compare(c, s);
			for(auto &o : ops) {
				if(c.bad) break;
				A::apply(c, s, o.first, o.second);
				if(c.bad) break;
				A::compare(c, s);
			}
		});
		if(c.bad || rec.evaluations % 64 == 1) case_detail("%s", c.trace.c_str());
		// destroy the owners, then both registries must be empty
		try { sp.reset(); } catch(const PanicStop &p) { violation(g_prop + ":assert:in-destructor:" + tname, std::string("assertion during destruction: ") + p.msg); }
	}
	expect_no_elems(("after destroying the " + tname + " (ops: " + c.trace + ")").c_str());
	expect_no_blocks(as, ("after destroying the " + tname + " (ops: " + c.trace + ")").c_str());
	if(idx == 0) sample(tname + ": " + c.trace.substr(0, 400), 40);
}

template<typename A>
static void run_type(const std::string &tname, unsigned exh_len, uint64_t nrand, unsigned randlen) {
	std::string mexh = "exh:" + tname, mrnd = "rand:" + tname;
	if(want_mode(mexh.c_str()) && exh_len) {
		uint64_t total = 1;
		for(unsigned i = 0; i < exh_len; i++) total *= A::NOPS;
		// shard the exhaustive space by index
		for(uint64_t x = opt.shard; x < total; x += opt.nshards) {
			if(!want_case((long long)x)) continue;
			std::vector<std::pair<int, uint64_t>> ops;
			uint64_t y = x;
			for(unsigned i = 0; i < exh_len; i++) { ops.push_back({(int)(y % A::NOPS), (uint64_t)(i * 3 + 1)}); y /= A::NOPS; }
			run_one<A>(tname, mexh.c_str(), (long long)x, ops);
			note_distinct(mix(hash_str(mexh), x));
			count("exhaustive_sequences");
		}
		rec.notes["exhaustive:" + tname] = strf("all %llu op sequences of length %u over %d ops (split over %u shards)", (unsigned long long)total, exh_len, A::NOPS, opt.nshards);
	}
	if(want_mode(mrnd.c_str())) {
		Rng sr(derive_seed(mrnd.c_str()));
		for(uint64_t i = 0; i < nrand; i++) {
			uint64_t cs = sr.next();
			if(!want_case((long long)i)) continue;
			Rng r(cs);
			unsigned len = 1 + r.below(randlen);
			// phase bias: growth-heavy, shrink-heavy or uniform
			int bias = r.below(3);
			std::vector<std::pair<int, uint64_t>> ops;
			uint64_t h = hash_str(mrnd);
			for(unsigned k = 0; k < len; k++) {
				int op = r.below(A::NOPS);
				if(bias == 0 && r.chance(1, 2)) op = r.below(3); // first ops of every adapter are insertions
				ops.push_back({op, r.next()});
				h = mix(h, op); h = mix(h, ops.back().second % 64);
			}
			run_one<A>(tname, mrnd.c_str(), (long long)i, ops);
			if(len >= 3) note_distinct(h);
			count("random_sequences");
		}
	}
}

template<typename E>
static void run_elem_family(bool thorough) {
	std::string e = ename<E>();
	bool isPod = std::is_same_v<E, Pod>;
	run_type<VecAdapter<E>>("vector<" + e + ">", thorough ? 5 : 4, scaled(isPod ? 600 : 400, 20000), thorough ? 400 : 60);
	run_type<SmallVecAdapter<E, 1>>("small_vector<" + e + ",1>", thorough ? 5 : 4, scaled(150, 6000), thorough ? 200 : 40);
	run_type<SmallVecAdapter<E, 2>>("small_vector<" + e + ",2>", thorough ? 5 : 4, scaled(150, 6000), thorough ? 200 : 40);
	run_type<SmallVecAdapter<E, 3>>("small_vector<" + e + ",3>", thorough ? 5 : 3, scaled(150, 6000), thorough ? 200 : 40);
	run_type<SmallVecAdapter<E, 4>>("small_vector<" + e + ",4>", thorough ? 5 : 4, scaled(150, 6000), thorough ? 200 : 40);
	run_type<SmallVecAdapter<E, 8>>("small_vector<" + e + ",8>", thorough ? 5 : 3, scaled(150, 6000), thorough ? 300 : 60);
	run_type<DynAdapter<E>>("dyn_array<" + e + ">", thorough ? 6 : 5, scaled(300, 10000), 40);
	run_type<StackAdapter<E>>("stack<" + e + ">", thorough ? 9 : 7, scaled(200, 5000), thorough ? 300 : 60);
	run_type<ListAdapter<E>>("list<" + e + ">", thorough ? 9 : 7, scaled(200, 5000), thorough ? 300 : 60);
}

// ------------------------------------------------------------------ equality with element types whose == is not "same bytes"
template<typename FV, typename T>
static void float_equality_case(const char *cname, Rng &r, long long idx) {
	begin_case("float-eq", idx);
	AllocState as; as.owner = cname;
	{
		FV a{TrackedAlloc(&as)}, b{TrackedAlloc(&as)};
		std::vector<T> ra, rb;
		auto gen = [&]() -> T { switch(r.below(6)) { case 0: return T(0.0); case 1: return T(-0.0); case 2: return std::numeric_limits<T>::quiet_NaN(); case 3: return T(1.5); default: return T(r.below(3)); } };
		size_t n = r.below(6);
		for(size_t i = 0; i < n; i++) { T v = gen(); a.push_back(v); ra.push_back(v); T w = r.chance(2, 3) ? v : gen(); if(v == T(0) && r.chance(1, 2)) w = -v; b.push_back(w); rb.push_back(w); }
		if(r.chance(1, 4)) { T v = gen(); b.push_back(v); rb.push_back(v); }
		bool eq = (a == b), ne = (a != b), req = (ra == rb);
		if(eq != req || ne == eq) model_violation(cname, "eq", strf("%s of floating-point elements: a==b is %d, a!=b is %d, the reference sequence says a==b is %d (sizes %zu, %zu)", cname, (int)eq, (int)ne, (int)req, ra.size(), rb.size()));
		bool self = (a == a), rself = (ra == ra);
		if(self != rself) model_violation(cname, "eq", strf("%s of floating-point elements: a==a is %d, the reference sequence says %d", cname, (int)self, (int)rself));
	}
	expect_no_blocks(as, "after the floating-point equality case");
	count("float_equality_cases");
}
static void float_equality() {
	if(!want_mode("float-eq")) return;
	Rng r(derive_seed("float-eq"));
	for(long long i = opt.shard; i < (long long)scaled(2000, 40000); i += opt.nshards) {
		switch(i % 3) { // (small_vector, dyn_array, stack and list have no operator==)
		case 0: float_equality_case<frg::vector<double, TrackedAlloc>, double>("vector", r, i); break;
		case 1: float_equality_case<frg::vector<float, TrackedAlloc>, float>("vector", r, i); break;
		default: float_equality_case<frg::vector<long double, TrackedAlloc>, long double>("vector", r, i); break;
		}
		note_distinct(mix(hash_str("float-eq"), i));
	}
}

// ------------------------------------------------------------------ emplace with an element type that tells its constructors apart
// (initializer_list / (int,int) / (int)): like the standard containers, emplace direct-initialises - emplace_back(w, f) into a
// container of std::vector<int> rows builds a row of w copies of f, not the row {w, f}.
struct InitProbe {
	int how, a, b;
	InitProbe(std::initializer_list<int> l) : how(1), a(l.size() > 0 ? *l.begin() : -1), b(l.size() > 1 ? *(l.begin() + 1) : -1) {}
	InitProbe(int x, int y) : how(2), a(x), b(y) {}
	explicit InitProbe(int x) : how(3), a(x), b(0) {}
	bool operator==(const InitProbe &o) const { return how == o.how && a == o.a && b == o.b; }
};
static void init_form() {
	if(!want_mode("init-form")) return;
	Rng r(derive_seed("init-form"));
	for(long long i = opt.shard; i < (long long)scaled(600, 20000); i += opt.nshards) {
		begin_case("init-form", i);
		AllocState as; as.owner = "init-form";
		{
			std::vector<InitProbe> ref; std::vector<std::vector<int>> rrows;
			frg::vector<InitProbe, TrackedAlloc> v{TrackedAlloc(&as)};
			frg::small_vector<InitProbe, 2, TrackedAlloc> sv{TrackedAlloc(&as)};
			frg::stack<InitProbe, TrackedAlloc> st{TrackedAlloc(&as)};
			frg::list<InitProbe, TrackedAlloc> li{TrackedAlloc(&as)};
			frg::vector<std::vector<int>, TrackedAlloc> rows{TrackedAlloc(&as)};
			size_t n = 1 + r.below(6);
			for(size_t k = 0; k < n; k++) {
				int x = (int)r.below(9), y = (int)r.below(1000);
				bool two = r.chance(2, 3);
				if(two) { ref.emplace_back(x, y); v.emplace_back(x, y); sv.emplace_back(x, y); st.emplace(x, y); li.emplace_back(x, y); rrows.emplace_back(x, y); rows.emplace_back(x, y); }
				else { ref.emplace_back(x); v.emplace_back(x); sv.emplace_back(x); st.emplace(x); li.emplace_back(x); rrows.emplace_back(x); rows.emplace_back(x); }
				auto diff = [&](const char *what, const InitProbe &f) {
					const InitProbe &s = ref.back();
					if(!(f == s)) model_violation(what, "init-form", strf("%s(%d%s) stored a value built by constructor %d holding (%d, %d); std::vector::emplace_back stores one built by constructor %d holding (%d, %d)", what, x, two ? ", y" : "", f.how, f.a, f.b, s.how, s.a, s.b));
				};
				diff("vector::emplace_back", v[v.size() - 1]); diff("small_vector::emplace_back", sv[sv.size() - 1]); diff("stack::emplace", st.top());
				if(!(rows[rows.size() - 1] == rrows.back())) model_violation("vector", "init-form", strf("vector<std::vector<int>>::emplace_back(%d%s) stored a row of %zu elements, std::vector stores one of %zu", x, two ? ", y" : "", rows[rows.size() - 1].size(), rrows.back().size()));
			}
			size_t k = 0;
			while(!li.empty()) { if(k < ref.size() && !(li.front() == ref[k])) model_violation("list", "init-form", strf("list::emplace_back stored a value built by constructor %d, std::vector::emplace_back one built by constructor %d", li.front().how, ref[k].how)); li.pop_front(); k++; }
		}
		expect_no_blocks(as, "after the init-form case");
		count("init_form_cases");
		note_distinct(mix(hash_str("init-form"), i));
	}
}

// ------------------------------------------------------------------ the constructors that take their allocator from `Allocator()`
// (how most code writes `frg::vector<T, KernelAlloc> v;`), and vector::detach()
static void default_allocator_ctors() {
	if(!want_mode("default-alloc")) return;
	Rng r(derive_seed("default-alloc"));
	AllocState *dflt = TrackedAlloc::default_state();
	for(long long i = opt.shard; i < (long long)scaled(300, 10000); i += opt.nshards) {
		begin_case("default-alloc", i);
		dflt->owner = "default-constructed allocator"; g_elems.owner = "default-alloc";
		size_t blocks0 = dflt->live.size();
		{
			frg::vector<Elem, TrackedAlloc> v; frg::small_vector<Elem, 2, TrackedAlloc> sv; frg::stack<Elem, TrackedAlloc> st; frg::list<Elem, TrackedAlloc> li;
			frg::dyn_array<Elem, TrackedAlloc> d0; size_t dn = r.below(5); frg::dyn_array<Elem, TrackedAlloc> dn_arr(dn);
			std::vector<int> ref;
			size_t n = r.below(7);
			for(size_t k = 0; k < n; k++) { int x = (int)r.below(1000); ref.push_back(x); v.push_back(Elem(x)); sv.push_back(Elem(x)); st.push(Elem(x)); li.emplace_back(x); }
			bool ok = v.size() == n && sv.size() == n && st.size() == n && d0.size() == 0 && dn_arr.size() == dn;
			for(size_t k = 0; ok && k < n; k++) ok = v[k].get() == ref[k] && sv[k].get() == ref[k];
			if(n && ok) ok = st.top().get() == ref.back() && li.front().get() == ref.front();
			if(!ok) model_violation("default-allocator constructors", "content", "a container built with its default-constructed allocator does not hold what was pushed");
			// detach(): the vector forgets its buffer without touching it (the caller has taken it over)
			if(n) {
				Elem *buf = v.data(); size_t cnt = v.size();
				v.detach();
				if(v.size() != 0 || !v.empty() || v.data() != nullptr) model_violation("vector", "detach", "after detach() the vector is not empty / still points at the buffer");
				for(size_t k = 0; k < cnt; k++) { if(buf[k].get() != ref[k]) model_violation("vector", "detach", "detach() touched the elements it gave away"); buf[k].~Elem(); }
				TrackedAlloc().free(buf);
				v.push_back(Elem(7)); if(v.size() != 1 || v[0].get() != 7) model_violation("vector", "detach", "the vector is not usable after detach()");
			}
		}
		expect_no_elems("after destroying containers built with default-constructed allocators");
		if(dflt->live.size() != blocks0) { lifetime_violation("alloc:leak:default-alloc", strf("%zu blocks of the default-constructed allocator are still allocated after its containers were destroyed", dflt->live.size() - blocks0)); dflt->live.clear(); }
		count("default_allocator_cases");
		note_distinct(mix(hash_str("default-alloc"), i));
	}
}

// ------------------------------------------------------------------ sizes and shapes the operation sequences do not reach
// (a) vectors of several hundred thousand elements: copies, assignments and resizes that ask for far more than the current capacity
// (b) containers whose elements contain such a container: the tree-collapse idiom `n.kids = std::move(n.kids[0].kids)` moves from a
//     source that lives inside an element the destination owns (by-value assignment makes that safe; it has to stay safe)
struct TNode { Elem tag; frg::vector<TNode, TrackedAlloc> kids; TNode(int v, TrackedAlloc a) : tag(v), kids(a) {} };
struct TNodeS { int tag; std::vector<TNodeS> kids; };
static void tree_sum(const frg::vector<TNode, TrackedAlloc> &v, std::vector<int> &out) { for(size_t i = 0; i < v.size(); i++) { out.push_back(v[i].tag.get()); tree_sum(v[i].kids, out); } }
static void tree_sum(const std::vector<TNodeS> &v, std::vector<int> &out) { for(auto &n : v) { out.push_back(n.tag); tree_sum(n.kids, out); } }
static void big_and_recursive() {
	if(!want_mode("big-recursive")) return;
	Rng r(derive_seed("big-recursive"));
	for(long long i = opt.shard; i < (long long)scaled(60, 2000); i += opt.nshards) {
		begin_case("big-recursive", i);
		AllocState as; as.owner = "vector"; g_elems.owner = "vector";
		if(i % 20 == 0) { // (a)
			TrackedAlloc al(&as);
			size_t n = 270000 + r.below(200000);
			frg::vector<int, TrackedAlloc> big(al); std::vector<int> ref;
			for(size_t k = 0; k < n; k++) { big.push_back((int)(k * 7)); } ref.resize(n); for(size_t k = 0; k < n; k++) ref[k] = (int)(k * 7);
			frg::vector<int, TrackedAlloc> cp(big);
			frg::vector<int, TrackedAlloc> asg(al); asg.push_back(1); asg = big;
			frg::vector<int, TrackedAlloc> rs(al); for(int k = 0; k < 10; k++) rs.push_back(k); size_t m = 600000 + r.below(200000); rs.resize(m);
			bool ok = cp.size() == n && asg.size() == n && rs.size() == m;
			for(size_t k = 0; ok && k < n; k += 997) ok = cp[k] == ref[k] && asg[k] == ref[k];
			ok = ok && cp[n - 1] == ref[n - 1] && asg[n - 1] == ref[n - 1] && rs[9] == 9 && rs[m - 1] == 0 && rs[10] == 0;
			if(!ok) model_violation("vector", "large", strf("copy / assignment / resize of a vector of %zu (resize to %zu) elements does not hold the reference's content", n, m));
			count("large_vector_cases");
		} else { // (b)
			TrackedAlloc al(&as);
			frg::vector<TNode, TrackedAlloc> roots(al); std::vector<TNodeS> sroots;
			int next = 1;
			// a random tree of depth <= 3
			for(int a = 0, na = 1 + (int)r.below(3); a < na; a++) {
				roots.emplace_back(next, al); sroots.push_back({next, {}}); next++;
				for(int b = 0, nb = (int)r.below(4); b < nb; b++) {
					roots[a].kids.emplace_back(next, al); sroots[a].kids.push_back({next, {}}); next++;
					for(int c2 = 0, nc = (int)r.below(4); c2 < nc; c2++) { roots[a].kids[b].kids.emplace_back(next, al); sroots[a].kids[b].kids.push_back({next, {}}); next++; }
				}
			}
			for(int step = 0; step < 4; step++) {
				size_t a = r.below(roots.size());
				if(roots[a].kids.size() == 0) continue;
				size_t b = r.below(roots[a].kids.size());
				if(r.chance(1, 2)) { roots[a].kids = std::move(roots[a].kids[b].kids); auto tmp = std::move(sroots[a].kids[b].kids); sroots[a].kids = std::move(tmp); }
				else { frg::vector<TNode, TrackedAlloc> cpy(roots[a].kids[b].kids); roots[a].kids = cpy; auto tmp = sroots[a].kids[b].kids; sroots[a].kids = tmp; }
				std::vector<int> got, want; tree_sum(roots, got); tree_sum(sroots, want);
				if(got != want) { model_violation("vector", "source-inside-own-element", "after n.kids = std::move(n.kids[i].kids) (or the copying form) the tree does not hold the nodes the reference tree holds"); break; }
				if(g_elems.alive.size() != want.size()) { lifetime_violation("elem:count:vector-tree", strf("%zu tag objects alive for a tree of %zu nodes after collapsing a level", g_elems.alive.size(), want.size())); break; }
			}
			count("recursive_vector_cases");
		}
		expect_no_elems("after destroying the vectors of the large / recursive case");
		expect_no_blocks(as, "after the large / recursive case");
		note_distinct(mix(hash_str("big-recursive"), i));
	}
}

// ---- an intrusive list (and its nodes) with static storage duration that is filled while other namespace-scope objects are still
// being constructed (driver registries, the kernel's list of CPUs): list and hook have constexpr constructors, so both are
// constant-initialised and what the constructor of an *earlier* global linked is still linked when main() starts.
struct ENode { int id = 0; frg::default_list_hook<ENode> hook; }; // (every member initialised: otherwise the node itself is not constant-initialised)
using EList = frg::intrusive_list<ENode, frg::locate_member<ENode, frg::default_list_hook<ENode>, &ENode::hook>>;
extern EList g_early_list;
extern ENode g_early_nodes[3];
static struct EarlyLinker { EarlyLinker() { for(int i = 0; i < 3; i++) g_early_nodes[i].id = 100 + i; g_early_list.push_back(&g_early_nodes[0]); g_early_list.push_back(&g_early_nodes[1]); g_early_list.push_front(&g_early_nodes[2]); } } g_early_linker;
EList g_early_list;
ENode g_early_nodes[3];
static void static_init_case() {
	begin_case("static-init", 0);
	std::vector<int> got; size_t guard = 0;
	for(auto it = g_early_list.begin(); it != g_early_list.end() && guard < 10; ++it, ++guard) got.push_back((*it)->id);
	if(got != std::vector<int>{102, 100, 101}) {
		std::string g; for(int x : got) g += std::to_string(x) + " ";
		if(g_model_armed) violation("C13:model:intrusive_list:static-init", "a namespace-scope intrusive_list filled by the constructor of an earlier global holds [" + g + "] when main() starts, expected [102 100 101]");
	} else {
		// and the list still works: drain it, the hooks must come back unlinked
		int order[3] = {102, 100, 101};
		for(int i = 0; i < 3; i++) { ENode *n = g_early_list.pop_front(); if((!n || n->id != order[i]) && g_model_armed) { violation("C13:model:intrusive_list:static-init", "pop_front() of a list filled during static initialisation returns a wrong node"); break; } }
		if(!g_early_list.empty() && g_model_armed) violation("C13:model:intrusive_list:static-init", "a drained list filled during static initialisation is not empty");
	}
	count("intrusive_lists_filled_during_static_initialisation");
	note_distinct(mix(0xE2, 1));
}

int main(int argc, char **argv) {
	parse_args(argc, argv, "containers");
	if(opt.replay_arg.find("prop=C16") != std::string::npos) g_prop = "C16";
	g_lifetime_armed = (g_prop == "C16");
	g_model_armed = (g_prop == "C13");
	rec.rule = "a case is one operation sequence on a pair of containers (a,b) of one type, compared with reference sequences after every operation and with the "
		"element/allocation registries after destruction; distinct = hash of (type, op codes, parameter classes); random sequences with < 3 ops are not counted";
	bool t = opt.thorough();
	if(want_mode("static-init") && want_case(0)) static_init_case();
	run_elem_family<Pod>(t);
	run_elem_family<Elem>(t);
	// a trivially copyable element type whose default value is not all-zero bytes
	run_type<VecAdapter<PodNZ>>("vector<pod-nonzero-default>", t ? 4 : 3, scaled(200, 8000), t ? 200 : 40);
	run_type<SmallVecAdapter<PodNZ, 2>>("small_vector<pod-nonzero-default,2>", t ? 4 : 3, scaled(100, 4000), t ? 200 : 40);
	run_type<DynAdapter<PodNZ>>("dyn_array<pod-nonzero-default>", t ? 5 : 4, scaled(100, 4000), 40);
	run_type<IListAdapter>("intrusive_list", t ? 6 : 5, scaled(600, 30000), t ? 300 : 60);
	float_equality();
	init_form();
	default_allocator_ctors();
	big_and_recursive();
	return finish();
}
