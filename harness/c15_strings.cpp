// C15 (and the string part of C16): frg::basic_string / basic_string_view vs std::string.
// Every source lives in a GuardedBuf (exact size: one byte past the end is unaddressable); every owned buffer comes from
// TrackedAlloc (exact-size blocks), so reads outside a source view or outside the string's own buffer are ASan reports.
//   --arg prop=C15 : model mismatches are violations;  --arg prop=C16 : allocation registry events are violations.
#include "common/verif.hpp"
#include "common/track.hpp"
#include <frg/string.hpp>
#include <string>
#include <limits>

using namespace verif;

using Str = frg::string<TrackedAlloc>;
using View = frg::string_view;

static std::string g_prop = "C15";
static bool g_model_armed = true;

static std::string show(const std::string &s) {
	std::string o = "\"";
	for(unsigned char c : s) { if(c == 0) o += "\\0"; else if(c < 0x20 || c >= 0x7f) o += strf("\\x%02x", c); else o += (char)c; if(o.size() > 80) { o += "..."; break; } }
	return o + "\"";
}

struct Ctx {
	std::string what;
	bool bad = false;
	void fail(const std::string &kind, const std::string &msg) {
		if(bad) return; bad = true;
		count("model_mismatches_flagged");
		if(g_model_armed) violation("C15:model:string:" + kind, msg + " [" + what + "]");
		else count("unarmed:model:" + kind);
	}
};

static int sgn(long long v) { return v < 0 ? -1 : v > 0 ? 1 : 0; }
static int ref_compare(const std::string &a, const std::string &b) {
	if(a.size() != b.size()) return a.size() < b.size() ? -1 : 1;
	for(size_t i = 0; i < a.size(); i++) if(a[i] != b[i]) return a[i] < b[i] ? -1 : 1; // Char order, as documented (length first)
	return 0;
}

// the string must denote exactly `r`
static void expect_str(Ctx &c, const Str &s, const std::string &r, const char *how, bool must_have_buffer = true) {
	if(c.bad) return;
	if(s.size() != r.size()) return c.fail("size", strf("%s: size()=%zu expected %zu", how, s.size(), r.size()));
	if(s.empty() != r.empty()) return c.fail("empty", strf("%s: empty()", how));
	if(must_have_buffer && !s.data()) return c.fail("null-data", strf("%s: data() is null after a content-taking operation", how));
	if(s.data()) {
		if(s.data()[s.size()] != 0) return c.fail("terminator", strf("%s: data()[size()] is 0x%02x, not 0 (content %s)", how, (unsigned char)s.data()[s.size()], show(r).c_str()));
		if(memcmp(s.data(), r.data(), r.size())) return c.fail("content", strf("%s: content differs from %s", how, show(r).c_str()));
	}
	for(size_t i = 0; i < r.size(); i++) if(s[i] != r[i]) return c.fail("content", strf("%s: operator[](%zu)", how, i));
	if((size_t)(s.end() - s.begin()) != r.size()) return c.fail("iter", strf("%s: end()-begin()", how));
	View v = s;
	if(v.size() != r.size() || v.data() != s.data()) return c.fail("view", strf("%s: conversion to view", how));
}

struct Fixture {
	AllocState as;
	TrackedAlloc al{&as};
	Fixture() { as.owner = "string"; }
};

// ------------------------------------------------------------------ unary
static void unary(Ctx &c, const std::string &x) {
	Fixture f;
	GuardedBuf gx(x.data(), x.size());
	{
		Str s(gx.data(), x.size(), f.al);
		expect_str(c, s, x, "string(ptr,len)");
		Str s2(f.al, gx.data(), x.size());
		expect_str(c, s2, x, "string(alloc,ptr,len)");
		View vx(gx.data(), x.size());
		Str s3(vx, f.al);
		expect_str(c, s3, x, "string(view)");
		Str s4(f.al, vx);
		expect_str(c, s4, x, "string(alloc,view)");
		// C string: content up to the first NUL, source buffer ends right behind its terminator
		std::string cx = x.substr(0, x.find('\0'));
		std::string cz = cx; cz.push_back('\0');
		GuardedBuf gc(cz.data(), cz.size());
		Str s5(gc.data(), f.al);
		expect_str(c, s5, cx, "string(cstr)");
		Str s6(f.al, gc.data());
		expect_str(c, s6, cx, "string(alloc,cstr)");
		View vc(gc.data());
		if(vc.size() != cx.size() || vc.data() != gc.data()) c.fail("view", "view(cstr) size/data");
		if(frg::generic_strlen(gc.data()) != cx.size()) c.fail("strlen", "generic_strlen");
		if(frg::generic_strnlen(gx.data(), x.size()) != std::min(x.size(), cx.size())) c.fail("strlen", "generic_strnlen with max = buffer size");
		// copy / assignment / swap
		Str cp(s);
		expect_str(c, cp, x, "copy constructor");
		if(x.size() && cp.data() == s.data()) c.fail("alias", "copy shares the buffer");
		Str as_(f.al);
		if(as_.size() != 0 || !as_.empty()) c.fail("size", "default-constructed string not empty");
		Str dcopy(as_);
		expect_str(c, dcopy, "", "copy of a default-constructed string", false);
		as_ = s;
		expect_str(c, as_, x, "assignment to empty");
		Str other("zzz", f.al);
		other = s;
		expect_str(c, other, x, "assignment to non-empty");
		{ Str &o2 = other; other = o2; }
		expect_str(c, other, x, "self-assignment");
		Str w("w", f.al);
		swap(w, other);
		expect_str(c, w, x, "swap (first)");
		expect_str(c, other, "w", "swap (second)");
		// fill constructor
		Str fill(x.size(), 'q', f.al);
		expect_str(c, fill, std::string(x.size(), 'q'), "string(size,c)");
		// resize: prefix kept
		for(size_t n = 0; n <= x.size() + 2 && !c.bad; n++) {
			if(x.size() > 12 && n > 3 && n + 3 < x.size()) continue;
			Str r(s);
			r.resize(n);
			if(r.size() != n) { c.fail("resize", strf("resize(%zu): size()=%zu", n, r.size())); break; }
			if(!r.data() || r.data()[n] != 0) { c.fail("terminator", strf("resize(%zu): terminator", n)); break; }
			size_t keep = std::min(n, x.size());
			if(memcmp(r.data(), x.data(), keep)) { c.fail("resize", strf("resize(%zu) of %s did not keep the prefix", n, show(x).c_str())); break; }
		}
		// + char, += char, push_back
		for(char ch : {'a', '\0', (char)0xff}) {
			std::string e = x; e.push_back(ch);
			Str base(s);
			Str sum = base + ch;
			expect_str(c, sum, e, "operator+(char)");
			expect_str(c, base, x, "left operand after +(char)");
			Str pe(s); pe += ch;
			expect_str(c, pe, e, "operator+=(char)");
			Str pb(s); pb.push_back(ch);
			expect_str(c, pb, e, "push_back");
			Str em(f.al); em += ch;
			expect_str(c, em, std::string(1, ch), "+= char on a default-constructed string");
		}
		// view searches
		View v(gx.data(), x.size());
		for(char ch : {'a', 'b', '\0', 'z'}) {
			for(size_t from = 0; from <= x.size() + 1 && !c.bad; from++) {
				if(x.size() > 12 && from > 2 && from + 2 < x.size()) continue;
				size_t got = v.find_first(ch, from), exp = x.find(ch, from);
				if(got != exp) c.fail("find_first", strf("find_first(0x%02x,%zu) on %s = %zd expected %zd", (unsigned char)ch, from, show(x).c_str(), (ssize_t)got, (ssize_t)exp));
			}
			if(v.find_first(ch) != x.find(ch)) c.fail("find_first", "find_first default start");
			size_t gl = v.find_last(ch), el = x.rfind(ch);
			if(gl != el) c.fail("find_last", strf("find_last(0x%02x) on %s = %zd expected %zd", (unsigned char)ch, show(x).c_str(), (ssize_t)gl, (ssize_t)el));
		}
		for(const std::string &set : {std::string(""), std::string("a"), std::string("b"), std::string("ab"), std::string("\0", 1), std::string("z\0b", 3)}) {
			GuardedBuf gs(set.data(), set.size());
			View sv(gs.data(), set.size());
			for(size_t from = 0; from <= x.size() + 1 && !c.bad; from++) {
				if(x.size() > 12 && from > 2 && from + 2 < x.size()) continue;
				size_t got = v.find_first_of(sv, from), exp = x.find_first_of(set, from);
				if(got != exp) c.fail("find_first_of", strf("find_first_of(%s,%zu) on %s = %zd expected %zd", show(set).c_str(), from, show(x).c_str(), (ssize_t)got, (ssize_t)exp));
			}
		}
		for(size_t from = 0; from <= x.size() && !c.bad; from++)
			for(size_t n = 0; from + n <= x.size() && !c.bad; n++) {
				if(x.size() > 12 && (from + n) % 7 && n % 5) continue;
				View sub = v.sub_string(from, n);
				if(sub.size() != n || sub.data() != gx.data() + from) c.fail("sub_string", strf("sub_string(%zu,%zu)", from, n));
			}
		for(size_t i = 0; i < x.size(); i++) if(v[i] != x[i]) { c.fail("content", "view operator[]"); break; }
		if(!(v == View(s))) c.fail("view-eq", "view of the source != view of the copy");
		// hashing: string and view of equal content hash equally; equal strings hash equally
		unsigned hs = frg::hash<Str>()(s), hv = frg::hash<View>()(v), hc = frg::hash<Str>()(cp);
		if(hs != hv) c.fail("hash", strf("hash(string)=%u != hash(view)=%u for %s", hs, hv, show(x).c_str()));
		if(hs != hc) c.fail("hash", "equal strings hash differently");
		// detach() hands the buffer to the caller
		{ Str d(s); char *raw = d.data(); d.detach(); if(d.size() != 0 || d.data() != nullptr) c.fail("detach", "detach did not empty the string"); f.al.free(raw); }
	}
	if(!c.bad || g_prop == "C16") { g_elems.owner = "string"; expect_no_blocks(f.as, ("after destroying all strings built from " + show(x)).c_str()); }
	else { for(auto &kv : f.as.live) ::free(kv.first); f.as.live.clear(); }
}

// ------------------------------------------------------------------ binary
static void binary(Ctx &c, const std::string &x, const std::string &y) {
	Fixture f;
	GuardedBuf gx(x.data(), x.size()), gy(y.data(), y.size());
	{
		Str sx(gx.data(), x.size(), f.al), sy(gy.data(), y.size(), f.al);
		View vx(gx.data(), x.size()), vy(gy.data(), y.size());
		Str sum = sx + vy;
		expect_str(c, sum, x + y, "operator+(view)");
		expect_str(c, sx, x, "left operand after +(view)");
		Str pe(sx); pe += vy;
		expect_str(c, pe, x + y, "operator+=(view)");
		Str em(f.al); em += vy;
		expect_str(c, em, y, "+= view on a default-constructed string");
		// overloads the batteries above do not reach: writing through the non-const begin()/end(), (size) and (size, char) with
		// the defaulted arguments, find_first_of without a start
		{ Str w(sx); for(char *p = w.begin(); p != w.end(); ++p) *p = (char)(*p == 'a' ? 'b' : 'a'); std::string wx = x; for(auto &ch : wx) ch = (ch == 'a' ? 'b' : 'a'); expect_str(c, w, wx, "writes through begin()/end()");
		  if((size_t)(w.end() - w.begin()) != x.size()) c.fail("iter", "non-const end() - begin()");
		  Str z0(x.size()); expect_str(c, z0, std::string(x.size(), '\0'), "basic_string(size)");
		  Str z1(y.size(), 'q'); expect_str(c, z1, std::string(y.size(), 'q'), "basic_string(size, char)");
		  size_t f0 = vx.find_first_of(vy), r0 = x.find_first_of(y); if(f0 != (r0 == std::string::npos ? (size_t)-1 : r0)) c.fail("find_first_of", strf("find_first_of(%s) without a start on %s = %zu, expected %zu", show(y).c_str(), show(x).c_str(), f0, r0)); }
		// a view without data (default-constructed; what an option that was not given leaves behind) appended to strings with and
		// without a buffer: afterwards the string owns a terminated buffer like after any other append
		{ Str n1(f.al); n1 += View(); expect_str(c, n1, "", "+= of a default-constructed view on a default-constructed string");
		  Str n2(f.al); n2 += View(n2); expect_str(c, n2, "", "s += view(s) on a default-constructed string");
		  Str n3(sx); n3 += View(); expect_str(c, n3, x, "+= of a default-constructed view");
		  Str n4(f.al); Str n5 = n4 + View(); expect_str(c, n5, "", "default-constructed string + default-constructed view");
		  Str n6(f.al); n6 += View(); n6 += vy; expect_str(c, n6, y, "+= view after += of a default-constructed view"); }
		Str em2(f.al); Str es = em2 + vy;
		expect_str(c, es, y, "default-constructed + view");
		// assignment from a C-string pointer into the string's own buffer ("let a C API fill the buffer, then cut at the NUL")
		for(size_t k = 0; k <= x.size() && !c.bad; k++) { Str t(sx); const char *inner = t.data() + k; std::string want = x.substr(k); want = want.substr(0, want.find('\0')); t = inner; expect_str(c, t, want, "s = s.data() + k"); }
		Str selfcat(sx); selfcat += View(selfcat);
		expect_str(c, selfcat, x + x, "s += view(s)");
		// compare / ==
		int e = ref_compare(x, y);
		int g = sx.compare(sy), g2 = sy.compare(sx);
		if(sgn(g) != e) c.fail("compare", strf("compare(%s,%s)=%d expected sign %d", show(x).c_str(), show(y).c_str(), g, e));
		if(sgn(g2) != -e) c.fail("compare", "compare is not antisymmetric");
		if((sx == sy) != (x == y)) c.fail("eq", strf("operator==(%s,%s)", show(x).c_str(), show(y).c_str()));
		if((vx == vy) != (x == y) || (vy == vx) != (x == y)) c.fail("view-eq", strf("view operator==(%s,%s)", show(x).c_str(), show(y).c_str()));
		// against a C string (content of y up to its first NUL), source ends right behind the terminator
		std::string cy = y.substr(0, y.find('\0')); std::string cz = cy; cz.push_back('\0');
		GuardedBuf gc(cz.data(), cz.size());
		int ec = ref_compare(x, cy);
		if(sgn(sx.compare(gc.data())) != ec) c.fail("compare", strf("compare(%s, cstr %s) expected sign %d", show(x).c_str(), show(cy).c_str(), ec));
		if((sx == gc.data()) != (x == cy)) c.fail("eq", "operator==(const char*)");
		// starts_with / ends_with
		bool esw = x.size() >= y.size() && x.compare(0, y.size(), y) == 0;
		bool eew = x.size() >= y.size() && x.compare(x.size() - y.size(), y.size(), y) == 0;
		if(vx.starts_with(vy) != esw || sx.starts_with(vy) != esw) c.fail("starts_with", strf("starts_with(%s,%s) expected %d", show(x).c_str(), show(y).c_str(), (int)esw));
		if(vx.ends_with(vy) != eew || sx.ends_with(vy) != eew) c.fail("ends_with", strf("ends_with(%s,%s) expected %d", show(x).c_str(), show(y).c_str(), (int)eew));
		// assignment between two live strings
		Str t(sx); t = sy;
		expect_str(c, t, y, "x = y");
		expect_str(c, sy, y, "source after assignment");
		// hash: different or equal content; only equality is demanded
		if(x == y && frg::hash<Str>()(sx) != frg::hash<Str>()(sy)) c.fail("hash", "equal strings hash differently");
	}
	if(!c.bad || g_prop == "C16") expect_no_blocks(f.as, ("after destroying all strings built from " + show(x) + "," + show(y)).c_str());
	else { for(auto &kv : f.as.live) ::free(kv.first); f.as.live.clear(); }
}

// ------------------------------------------------------------------ to_number
template<typename T>
static void number_case(Ctx &c, Rng &r) {
	using L = std::numeric_limits<T>;
	unsigned long long maxv = (unsigned long long)L::max();
	unsigned long long v;
	switch(r.below(6)) { case 0: v = 0; break; case 1: v = maxv; break; case 2: v = maxv - 1; break; case 3: v = r.below(10); break; case 4: v = maxv / 10; break; default: v = r.next() % (maxv + (maxv == ~0ull ? 0 : 1)); if(maxv == ~0ull) v = r.next(); }
	std::string s = std::to_string(v);
	// leading zeros do not change the value (and cannot overflow)
	s = std::string(r.below(4), '0') + s;
	GuardedBuf g(s.data(), s.size());
	View vw(g.data(), s.size());
	auto res = vw.to_number<T>();
	if(!res) return c.fail("to_number", strf("to_number<%zu-byte %s>(%s) is empty", sizeof(T), L::is_signed ? "signed" : "unsigned", show(s).c_str()));
	if((unsigned long long)*res != v) return c.fail("to_number", strf("to_number(%s)=%llu expected %llu", show(s).c_str(), (unsigned long long)*res, v));
	count("to_number_cases");
}

// ------------------------------------------------------------------ random operation sequences against std::string
static std::string random_string(Rng &r, size_t maxlen) {
	size_t len;
	switch(r.below(6)) { case 0: len = 0; break; case 1: len = 1; break; case 2: len = r.below(8); break; default: len = r.below(maxlen + 1); }
	int alpha = r.below(4);
	std::string s;
	for(size_t i = 0; i < len; i++) {
		char ch;
		switch(alpha) { case 0: ch = "ab"[r.below(2)]; break; case 1: ch = "ab\0"[r.below(3)]; break; case 2: ch = (char)r.below(256); break; default: ch = (char)('a' + r.below(26)); }
		s.push_back(ch);
	}
	return s;
}

static void sequence_case(Ctx &c, Rng &r, unsigned maxops, size_t maxlen) {
	Fixture f;
	{
		std::string rs = random_string(r, maxlen);
		GuardedBuf g0(rs.data(), rs.size());
		Str s(g0.data(), rs.size(), f.al);
		unsigned n = 1 + r.below(maxops);
		for(unsigned i = 0; i < n && !c.bad; i++) {
			std::string y = random_string(r, maxlen / 2);
			GuardedBuf gy(y.data(), y.size());
			View vy(gy.data(), y.size());
			switch(r.below(9)) {
			case 0: s += vy; rs += y; c.what += " +=view"; break;
			case 1: { char ch = (char)r.below(256); s += ch; rs.push_back(ch); c.what += " +=ch"; break; }
			case 2: { char ch = (char)r.below(256); s.push_back(ch); rs.push_back(ch); c.what += " push_back"; break; }
			case 3: { size_t nl = r.chance(1, 2) ? r.below(rs.size() + 1) : rs.size() + r.below(20); size_t keep = std::min(nl, rs.size()); s.resize(nl); std::string nr(s.data(), nl);
				if(s.size() != nl || memcmp(s.data(), rs.data(), keep)) c.fail("resize", "resize lost the prefix"); rs = nr; c.what += strf(" resize(%zu)", nl); break; }
			case 4: { Str t = s + vy; expect_str(c, t, rs + y, "s+view in sequence"); s = t; rs += y; c.what += " s=s+view"; break; }
			case 5: { Str t(vy, f.al); s = t; rs = y; c.what += " s=string(view)"; break; }
			case 6: { Str t(f.al); swap(s, t); expect_str(c, t, rs, "swapped-out", false); rs.clear(); c.what += " swap-with-empty"; expect_str(c, s, rs, "after swap with empty", false); continue; }
			case 7: { Str t(s); s = t; c.what += " s=copy(s)"; break; }
			case 8: { Str t = s + 'x'; s = t; rs.push_back('x'); c.what += " s=s+ch"; break; }
			}
			expect_str(c, s, rs, "after sequence step");
		}
	}
	if(!c.bad || g_prop == "C16") expect_no_blocks(f.as, "after destroying the strings of an operation sequence");
	else { for(auto &kv : f.as.live) ::free(kv.first); f.as.live.clear(); }
}

// ------------------------------------------------------------------ other character types
// The same clauses for Char = wchar_t / char16_t / unsigned char against std::basic_string<Char>. Sources live in GuardedBufs of
// exactly size*sizeof(Char) bytes and owned buffers come from TrackedAlloc (exact-size blocks): an allocation computed in bytes
// where characters are meant, or a memcpy counted in characters, is an ASan report or a content mismatch.
template<typename Char, typename Alloc = TrackedAlloc>
static void wide_case(Ctx &c, const std::basic_string<Char> &x, const std::basic_string<Char> &y, const char *tname) {
	using WStr = frg::basic_string<Char, Alloc>;
	using WView = frg::basic_string_view<Char>;
	using Ref = std::basic_string<Char>;
	Fixture f; Alloc al(&f.as);
	auto expect = [&](const WStr &s, const Ref &r, const char *how) {
		if(c.bad) return;
		if(s.size() != r.size()) return c.fail("size", strf("%s %s: size()=%zu expected %zu", tname, how, s.size(), r.size()));
		if(!s.data()) return c.fail("null-data", strf("%s %s: data() is null", tname, how));
		if(s.data()[s.size()] != 0) return c.fail("terminator", strf("%s %s: data()[size()] != 0", tname, how));
		for(size_t i = 0; i < r.size(); i++) if(s[i] != r[i]) return c.fail("content", strf("%s %s: character %zu differs", tname, how, i));
	};
	GuardedBuf gx(x.data(), x.size() * sizeof(Char)), gy(y.data(), y.size() * sizeof(Char));
	const Char *px = (const Char *)gx.data(), *py = (const Char *)gy.data();
	WView vx(px, x.size()), vy(py, y.size());
	{
		WStr a(px, x.size(), al); expect(a, x, "string(ptr,len)");
		WStr b(vx, al); expect(b, x, "string(view)");
		Ref cz = x.substr(0, x.find(Char(0))); Ref czz = cz; czz.push_back(Char(0));
		GuardedBuf gc(czz.data(), czz.size() * sizeof(Char));
		WStr cs((const Char *)gc.data(), al); expect(cs, cz, "string(cstr)");
		if(frg::generic_strlen((const Char *)gc.data()) != cz.size()) c.fail("strlen", strf("%s generic_strlen", tname));
		WStr fill(x.size(), Char('q'), al); expect(fill, Ref(x.size(), Char('q')), "string(size,c)");
		WStr cp(a); expect(cp, x, "copy");
		WStr as_(al); as_ = a; expect(as_, x, "assignment");
		{ WStr &r2 = as_; as_ = r2; } expect(as_, x, "self-assignment");
		for(size_t n : {size_t(0), x.size() / 2, x.size(), x.size() + 3}) { WStr r(a); r.resize(n); if(r.size() != n || !r.data() || r.data()[n] != 0) { c.fail("resize", strf("%s resize(%zu)", tname, n)); break; } for(size_t i = 0; i < std::min(n, x.size()); i++) if(r[i] != x[i]) { c.fail("resize", strf("%s resize(%zu) lost prefix character %zu", tname, n, i)); break; } }
		WStr cat = a + vy; expect(cat, x + y, "a+view"); expect(a, x, "a after a+view");
		WStr catc = a + Char(0x1234 & ((1u << (8 * sizeof(Char) - 1)) - 1)); { Ref e = x; e.push_back(Char(0x1234 & ((1u << (8 * sizeof(Char) - 1)) - 1))); expect(catc, e, "a+char"); }
		WStr app(a); app += vy; expect(app, x + y, "a+=view");
		WStr app2(a); app2 += WView(app2); expect(app2, x + x, "a+=view(a)");
		WStr pb(a); { Ref e = x; for(Char ch : y) { pb.push_back(ch); e.push_back(ch); } pb += Char('z'); e.push_back(Char('z')); expect(pb, e, "push_back/+=char sequence"); }
		WStr o(py, y.size(), al);
		int cmp = a.compare(o);
		int refc = x.size() != y.size() ? (x.size() < y.size() ? -1 : 1) : 0;
		if(!refc) for(size_t i = 0; i < x.size(); i++) if(x[i] != y[i]) { refc = x[i] < y[i] ? -1 : 1; break; }
		if(sgn(cmp) != refc) c.fail("compare", strf("%s compare()=%d expected sign %d", tname, cmp, refc));
		if((a == o) != (x == y)) c.fail("eq", strf("%s string == string", tname));
		if((vx == vy) != (x == y) || (vx != vy) == (x == y)) c.fail("eq", strf("%s view ==/!=", tname));
		swap(a, o); expect(a, y, "swap (first)"); expect(o, x, "swap (second)");
	}
	// views
	for(size_t from = 0; from <= x.size() && !c.bad; from++) {
		for(Char ch : {Char('a'), Char('b'), Char(0), Char(0x80), Char(0x7f41 & ((1ull << (8 * sizeof(Char))) - 1))}) {
			size_t r = x.find(ch, from); size_t got = vx.find_first(ch, from);
			if((r == Ref::npos) ? (got != size_t(-1)) : (got != r)) c.fail("find_first", strf("%s find_first from %zu", tname, from));
		}
		size_t r = x.find_first_of(y, from); size_t got = vx.find_first_of(vy, from);
		if((r == Ref::npos) ? (got != size_t(-1)) : (got != r)) c.fail("find_first_of", strf("%s find_first_of from %zu", tname, from));
		for(size_t n = 0; from + n <= x.size(); n++) { WView sv = vx.sub_string(from, n); if(sv.size() != n || sv.data() != px + from) { c.fail("sub_string", strf("%s sub_string(%zu,%zu)", tname, from, n)); break; } }
	}
	// equality between views of ONE buffer (same or overlapping storage, different lengths): v.sub_string(0, n) == v and the like
	if(x.size() <= 12) for(size_t f1 = 0; f1 <= x.size() && !c.bad; f1++) for(size_t n1 = 0; f1 + n1 <= x.size() && !c.bad; n1++) for(size_t f2 = 0; f2 <= x.size() && !c.bad; f2++) for(size_t n2 = 0; f2 + n2 <= x.size(); n2++) {
		WView a = vx.sub_string(f1, n1), b = vx.sub_string(f2, n2);
		bool ref = x.compare(f1, n1, x, f2, n2) == 0;
		if((a == b) != ref || (a != b) == ref) { c.fail("eq", strf("%s views [%zu,+%zu) and [%zu,+%zu) of one buffer: == is %d, reference %d", tname, f1, n1, f2, n2, (int)(a == b), (int)ref)); break; }
	}
	for(Char ch : {Char('a'), Char('b'), Char(0)}) { size_t r = x.rfind(ch); size_t got = vx.find_last(ch); if((r == Ref::npos) ? (got != size_t(-1)) : (got != r)) c.fail("find_last", strf("%s find_last", tname)); }
	{ bool sw = x.size() >= y.size() && x.compare(0, y.size(), y) == 0, ew = x.size() >= y.size() && x.compare(x.size() - y.size(), y.size(), y) == 0;
	  if(vx.starts_with(vy) != sw) c.fail("starts_with", strf("%s starts_with", tname)); if(vx.ends_with(vy) != ew) c.fail("ends_with", strf("%s ends_with", tname)); }
	{ unsigned h1 = frg::hash<WView>()(vx); GuardedBuf g2(x.data(), x.size() * sizeof(Char)); unsigned h2 = frg::hash<WView>()(WView((const Char *)g2.data(), x.size())); if(h1 != h2) c.fail("hash", strf("%s equal views hash differently", tname)); }
	// digits
	{ Ref d; for(char ch : std::string("40213")) d.push_back(Char(ch)); GuardedBuf gd(d.data(), d.size() * sizeof(Char)); auto v = WView((const Char *)gd.data(), d.size()).template to_number<int>(); if(!v || *v != 40213) c.fail("to_number", strf("%s to_number(\"40213\")", tname)); }
}

template<typename Char, typename Alloc = TrackedAlloc>
static void wide_sweep(const char *tname) {
	std::string mode = std::string("wide:") + tname;
	if(!want_mode(mode.c_str())) return;
	// all strings over {a, b, NUL, 0x80-ish} up to length 3, every ordered pair; then random longer ones
	std::vector<std::basic_string<Char>> all;
	const Char alpha[4] = {Char('a'), Char('b'), Char(0), Char((Char)(1ull << (8 * sizeof(Char) - 1)) | Char(0x41))};
	for(unsigned len = 0; len <= 3; len++) { unsigned total = 1; for(unsigned i = 0; i < len; i++) total *= 4; for(unsigned v = 0; v < total; v++) { std::basic_string<Char> s; unsigned w = v; for(unsigned i = 0; i < len; i++) { s.push_back(alpha[w % 4]); w /= 4; } all.push_back(s); } }
	uint64_t npairs = (uint64_t)all.size() * all.size();
	for(uint64_t p = opt.shard; p < npairs; p += opt.nshards) {
		if(!want_case(p)) continue;
		begin_case(mode.c_str(), p);
		Ctx c; c.what = strf("%s pair #%llu of all strings over {a,b,NUL,high} up to length 3", tname, (unsigned long long)p);
		guarded(g_prop.c_str(), [&] { wide_case<Char, Alloc>(c, all[p / all.size()], all[p % all.size()], tname); });
		note_distinct(mix(hash_str(mode), p)); count("wide_char_cases");
	}
	Rng r(derive_seed(mode.c_str()));
	for(uint64_t i = 0; i < scaled(300, 20000); i++) {
		begin_case(mode.c_str(), npairs + i);
		std::basic_string<Char> x, y;
		for(size_t k = r.below(40); k; k--) x.push_back(r.chance(1, 8) ? Char(0) : Char(r.next()));
		for(size_t k = r.below(12); k; k--) y.push_back(r.chance(1, 3) && !x.empty() ? x[r.below(x.size())] : Char(r.next()));
		Ctx c; c.what = strf("%s random pair #%llu (lengths %zu, %zu)", tname, (unsigned long long)i, x.size(), y.size());
		guarded(g_prop.c_str(), [&] { wide_case<Char, Alloc>(c, x, y, tname); });
		note_distinct(mix(hash_str(mode), npairs + i + opt.shard * 1000003ull)); count("wide_char_cases");
	}
}

int main(int argc, char **argv) {
	parse_args(argc, argv, "c15_strings");
	if(opt.replay_arg.find("prop=C16") != std::string::npos) g_prop = "C16";
	g_lifetime_armed = (g_prop == "C16");
	g_model_armed = (g_prop == "C15");
	rec.rule = "a case is one string (unary battery), one ordered pair of strings (binary battery), one digit string (to_number) or one random operation sequence; "
		"exhaustive over alphabet {a,b,NUL} to length 4; distinct = hash of the literal input(s)";
	// exhaustive strings over {a,b,NUL}
	std::vector<std::string> all;
	unsigned maxlen = opt.thorough() ? 5 : 4;
	for(unsigned len = 0; len <= maxlen; len++) {
		uint64_t total = 1; for(unsigned i = 0; i < len; i++) total *= 3;
		for(uint64_t x = 0; x < total; x++) { std::string s; uint64_t y = x; for(unsigned i = 0; i < len; i++) { s.push_back("ab\0"[y % 3]); y /= 3; } all.push_back(s); }
	}
	if(want_mode("exh-unary")) {
		for(size_t i = opt.shard; i < all.size(); i += opt.nshards) {
			if(!want_case(i)) continue;
			begin_case("exh-unary", i); case_detail("x=%s", show(all[i]).c_str());
			Ctx c; c.what = "x=" + show(all[i]);
			guarded(g_prop.c_str(), [&] { unary(c, all[i]); });
			note_distinct(mix(1, hash_str(all[i]))); count("unary_cases");
		}
		sample("unary battery on x=\"ab\\0a\": ctors (ptr,len)/(view)/(cstr)/(size,c), copy, assign, swap, resize 0..len+2, +char, += char, push_back, find_first/_of/_last from every start, all sub_strings, hash");
	}
	if(want_mode("exh-binary")) {
		uint64_t npairs = (uint64_t)all.size() * all.size();
		for(uint64_t p = opt.shard; p < npairs; p += opt.nshards) {
			if(!want_case(p)) continue;
			const std::string &x = all[p / all.size()], &y = all[p % all.size()];
			begin_case("exh-binary", p);
			Ctx c; c.what = "x=" + show(x) + " y=" + show(y);
			guarded(g_prop.c_str(), [&] { binary(c, x, y); });
			if(c.bad) case_detail("%s", c.what.c_str());
			note_distinct(mix(mix(2, hash_str(x)), hash_str(y))); count("binary_cases");
		}
		rec.notes["exhaustive_strings"] = strf("all %zu strings over {a,b,NUL} up to length %u: every string (unary) and every ordered pair (binary)", all.size(), maxlen);
		sample("binary battery on (x,y)=(\"ab\",\"b\\0\"): x+view(y), x+=view(y), compare both ways + vs C string, ==, view ==, starts_with/ends_with, x=y");
	}
	wide_sweep<wchar_t>("wchar_t");
	wide_sweep<char16_t>("char16_t");
	wide_sweep<unsigned char>("unsigned char");
	wide_sweep<char>("char (second battery)");
	wide_sweep<char, TrackedAllocR>("char, allocator with reallocate()"); // an allocator that offers the optional reallocate() member
	wide_sweep<wchar_t, TrackedAllocR>("wchar_t, allocator with reallocate()");
	if(want_mode("rand")) {
		Rng sr(derive_seed("rand"));
		uint64_t n = scaled(1500, 60000);
		for(uint64_t i = 0; i < n; i++) {
			uint64_t cs = sr.next();
			if(!want_case(i)) continue;
			begin_case("rand", i);
			Rng r(cs);
			std::string x = random_string(r, 300), y = r.chance(1, 4) ? x : random_string(r, 300);
			if(r.chance(1, 4) && !x.empty()) { y = x; y[r.below(y.size())] ^= (char)(1 << r.below(8)); }
			if(r.chance(1, 6)) y = x.substr(0, r.below(x.size() + 1));
			if(r.chance(1, 6)) y = x.substr(r.below(x.size() + 1));
			case_detail("x=%s y=%s", show(x).c_str(), show(y).c_str());
			Ctx c; c.what = "x=" + show(x) + " y=" + show(y);
			guarded(g_prop.c_str(), [&] { unary(c, x); binary(c, x, y); binary(c, y, x); });
			note_distinct(mix(mix(3, hash_str(x)), hash_str(y))); count("random_pairs");
		}
	}
	if(want_mode("seq")) {
		Rng sr(derive_seed("seq"));
		uint64_t n = scaled(1500, 60000);
		for(uint64_t i = 0; i < n; i++) {
			uint64_t cs = sr.next();
			if(!want_case(i)) continue;
			begin_case("seq", i);
			Rng r(cs);
			Ctx c; c.what = "sequence:";
			guarded(g_prop.c_str(), [&] { sequence_case(c, r, opt.thorough() ? 60 : 20, 120); });
			if(c.bad) case_detail("%s", c.what.c_str());
			note_distinct(mix(4, hash_str(c.what) ^ cs)); count("sequence_cases");
		}
		sample("sequence: string(ptr,len) then random {+=view, +=ch, push_back, resize, s=s+view, s=string(view), swap-with-empty, s=copy(s), s=s+ch} steps vs std::string");
	}
	if(want_mode("to_number")) {
		Rng r(derive_seed("num"));
		uint64_t n = scaled(3000, 100000);
		for(uint64_t i = 0; i < n; i++) {
			if(!want_case(i)) { r.next(); continue; }
			begin_case("to_number", i);
			Ctx c; c.what = "to_number";
			Rng rr(r.next());
			guarded(g_prop.c_str(), [&] {
				switch(i % 8) {
				case 0: number_case<uint8_t>(c, rr); break; case 1: number_case<uint16_t>(c, rr); break; case 2: number_case<uint32_t>(c, rr); break; case 3: number_case<uint64_t>(c, rr); break;
				case 4: number_case<int8_t>(c, rr); break; case 5: number_case<int16_t>(c, rr); break; case 6: number_case<int32_t>(c, rr); break; default: number_case<int64_t>(c, rr); break;
				}
			});
			note_distinct(mix(5, mix(i % 8, rr.s[0])));
		}
		sample("to_number<T> for T in {u8,u16,u32,u64,i8,i16,i32,i64}: 0, max, max-1, max/10, random values that fit, with 0-3 leading zeros, source in an exact-size buffer");
	}
	return finish();
}
