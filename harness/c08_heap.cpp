// C08: frg::pairing_heap vs a reference multiset after every push / pop / remove.
#include "common/verif.hpp"
#include <frg/pairing_heap.hpp>
#include <memory>
#include <frg/intrusive.hpp>
#include <vector>
#include <algorithm>

#include <pthread.h>

using namespace verif;

struct HNode {
	int prio;
	int id;
	frg::pairing_heap_hook<HNode> hook;
};
struct HCompare { int operator()(HNode *a, HNode *b) const { return a->prio < b->prio ? 4 : 0; } }; // max-heap on prio; the answer is an integer that is truthy but not 1 (a comparator is used by its truth value, like `flags & mask`)
using Heap = frg::pairing_heap<HNode, frg::locate_member<HNode, frg::pairing_heap_hook<HNode>, &HNode::hook>, HCompare>;

static bool g_bad = false;
static std::string g_trace;
static void fail(const std::string &kind, const std::string &msg) {
	if(g_bad) return; g_bad = true;
	case_detail("%s", g_trace.substr(0, 3500).c_str());
	violation("C08:model:pairing_heap:" + kind, msg + " after [" + g_trace.substr(0, 500) + "]");
}

static void reset_hook(HNode &n) { n.hook.child = n.hook.backlink = n.hook.sibling = nullptr; }

static void check_hook_reset(HNode *x, const char *how) {
	if(x->hook.child || x->hook.backlink || x->hook.sibling)
		fail("hook-reset", strf("%s: hook of element %d not reset (child=%p backlink=%p sibling=%p)", how, x->id, (void *)x->hook.child, (void *)x->hook.backlink, (void *)x->hook.sibling));
}

static void check_top(Heap &h, const std::vector<HNode *> &live) {
	if(g_bad) return;
	if(h.empty() != live.empty()) return fail("empty", strf("empty()=%d but %zu elements are contained", (int)h.empty(), live.size()));
	if(live.empty()) { if(h.top()) fail("top", "top() non-null on an empty heap"); return; }
	HNode *t = h.top();
	if(!t || std::find(live.begin(), live.end(), t) == live.end()) return fail("top-not-contained", "top() is not a contained element");
	for(auto *x : live) if(HCompare()(t, x)) return fail("top-not-max", strf("top() has priority %d but element %d with priority %d is contained", t->prio, x->id, x->prio));
}

// structural role of an element, read from the public hook fields
enum Role { R_ROOT, R_FIRST_CHILD, R_MIDDLE, R_LAST_SIBLING, R_LEAF, R_ANY, NROLES };
static HNode *pick_by_role(Heap &h, const std::vector<HNode *> &live, int role, uint64_t p) {
	std::vector<HNode *> c;
	for(auto *x : live) {
		bool root = (x == h.top());
		bool first = !root && x->hook.backlink && x->hook.backlink->hook.child == x;
		bool last = !root && !x->hook.sibling;
		bool leaf = !x->hook.child;
		bool ok = role == R_ROOT ? root : role == R_FIRST_CHILD ? first : role == R_MIDDLE ? (!root && !first && !last) : role == R_LAST_SIBLING ? (last && !first) : role == R_LEAF ? (leaf && !root) : true;
		if(ok) c.push_back(x);
	}
	if(c.empty()) return nullptr;
	return c[p % c.size()];
}

static void do_pop(Heap &h, std::vector<HNode *> &live) {
	HNode *t = h.top();
	h.pop();
	auto it = std::find(live.begin(), live.end(), t);
	if(it == live.end()) return fail("pop", "pop() on a heap whose top() was not contained");
	live.erase(it);
	check_hook_reset(t, "pop");
	// "removes exactly the element top() returned": the others are still reachable -> verified by the final drain and by top()
}

static void drain_and_check(Heap &h, std::vector<HNode *> &live) {
	// draining yields a non-increasing sequence containing each remaining element exactly once
	int last = INT32_MAX;
	size_t n = live.size();
	std::vector<int> seen;
	for(size_t i = 0; i < n && !g_bad; i++) {
		check_top(h, live);
		if(g_bad) break;
		HNode *t = h.top();
		if(t->prio > last) return fail("drain-order", "drain sequence is not non-increasing");
		last = t->prio;
		seen.push_back(t->id);
		do_pop(h, live);
	}
	if(!g_bad && (!h.empty() || !live.empty())) fail("drain-lost", "heap not empty after popping as many elements as were contained");
	std::sort(seen.begin(), seen.end());
	if(!g_bad && std::unique(seen.begin(), seen.end()) != seen.end()) fail("drain-dup", "an element was popped twice");
}

static void dispose(Heap *h, std::vector<HNode> &pool) {
	// bring heap + hooks into the state their destructors demand, whatever happened before
	bool clean = true;
	try { while(!h->empty()) h->pop(); } catch(const PanicStop &) { clean = false; }
	for(auto &n : pool) reset_hook(n);
	if(clean) delete h; // a heap that cannot be emptied through its API is leaked on purpose (its destructor asserts)
}

// ------------------------------------------------------------------ exhaustive sequences
static void exhaustive(const char *mode, unsigned len) {
	if(!want_mode(mode)) return;
	const int NOPS = 4 + 1 + NROLES; // push(prio 0..3), pop, remove(role)
	uint64_t total = 1;
	for(unsigned i = 0; i < len; i++) total *= NOPS;
	std::vector<HNode> pool(len);
	for(uint64_t x = opt.shard; x < total; x += opt.nshards) {
		if(!want_case(x)) continue;
		begin_case(mode, x);
		g_bad = false; g_trace.clear();
		for(unsigned i = 0; i < len; i++) { pool[i].id = i; reset_hook(pool[i]); }
		Heap *hp = new Heap; Heap &h = *hp;
		std::vector<HNode *> live;
		unsigned used = 0;
		guarded("C08", [&] {
			uint64_t y = x;
			for(unsigned i = 0; i < len && !g_bad; i++) {
				int op = y % NOPS; y /= NOPS;
				if(op < 4) { HNode *n = &pool[used++]; n->prio = op; g_trace += strf("push(p%d#%d) ", op, n->id); h.push(n); live.push_back(n); }
				else if(op == 4) { if(live.empty()) continue; g_trace += "pop "; do_pop(h, live); }
				else {
					HNode *v = pick_by_role(h, live, op - 5, i);
					if(!v) continue;
					g_trace += strf("remove(#%d role%d) ", v->id, op - 5);
					count(strf("remove_role_%d", op - 5));
					h.remove(v);
					live.erase(std::find(live.begin(), live.end(), v));
					check_hook_reset(v, "remove");
					if(!g_bad && i % 2 == 0) { g_trace += strf("repush(#%d) ", v->id); h.push(v); live.push_back(v); } // removed elements can be pushed again
				}
				check_top(h, live);
			}
			drain_and_check(h, live);
		});
		dispose(hp, pool);
		note_distinct(mix(hash_str(mode), x));
		count("exhaustive_histories");
	}
	rec.notes[mode] = strf("all %llu sequences of length %u over {push p0..p3, pop, remove(root|first child|middle|last sibling|leaf|any)}", (unsigned long long)total, len);
}

// ------------------------------------------------------------------ random
static void random_histories(const char *mode, uint64_t ncases, size_t maxn, unsigned nops) {
	if(!want_mode(mode)) return;
	Rng sr(derive_seed(mode));
	for(uint64_t c = 0; c < ncases; c++) {
		uint64_t cs = sr.next();
		if(!want_case(c)) continue;
		begin_case(mode, c);
		g_bad = false; g_trace.clear();
		Rng r(cs);
		size_t N = 2 + r.below(maxn);
		int stream = r.below(4);
		case_detail("N=%zu stream=%d seed=%llu", N, stream, (unsigned long long)cs);
		std::vector<HNode> pool(N);
		std::vector<HNode *> out, live;
		for(size_t i = 0; i < N; i++) { pool[i].id = (int)i; pool[i].prio = stream == 0 ? (int)i : stream == 1 ? (int)(N - i) : stream == 2 ? (int)r.below(3) : (int)r.below(N); reset_hook(pool[i]); out.push_back(&pool[i]); }
		Heap *hp = new Heap; Heap &h = *hp;
		guarded("C08", [&] {
			int phase = 0;
			for(unsigned i = 0; i < nops && !g_bad; i++) {
				if(i % 61 == 0) phase = r.below(3);
				int k = r.below(10);
				bool push = phase == 0 ? k < 7 : phase == 1 ? k < 3 : k < 5;
				if(live.empty()) push = true;
				if(out.empty()) push = false;
				if(push) { HNode *n = (stream <= 1) ? out.front() : out[r.below(out.size())]; out.erase(std::find(out.begin(), out.end(), n)); if(g_trace.size() < 3000) g_trace += strf("push(p%d#%d) ", n->prio, n->id); h.push(n); live.push_back(n); }
				else if(r.chance(1, 2)) { if(g_trace.size() < 3000) g_trace += "pop "; HNode *t = h.top(); do_pop(h, live); if(!g_bad) out.push_back(t); }
				else {
					int role = r.below(NROLES);
					HNode *v = pick_by_role(h, live, role, r.next());
					if(!v) continue;
					if(g_trace.size() < 3000) g_trace += strf("remove(#%d role%d) ", v->id, role);
					count(strf("remove_role_%d", role));
					h.remove(v); live.erase(std::find(live.begin(), live.end(), v)); check_hook_reset(v, "remove"); out.push_back(v);
				}
				if(live.size() < 64 || i % 16 == 0) check_top(h, live);
			}
			if(live.size() > rec.counters["max_heap_size"]) rec.counters["max_heap_size"] = live.size();
			drain_and_check(h, live);
		});
		dispose(hp, pool);
		note_distinct(mix(hash_str(mode), cs));
		count("random_histories");
	}
}

// ------------------------------------------------------------------ very long sibling lists on a small stack
// pop()/remove() of an element with several hundred thousand children (what descending or equal pushes produce) must work with the
// stack a kernel thread has: the worker runs on a 256 KiB stack. An implementation whose stack use grows with the number of
// siblings does not return from the call (ASan: stack-overflow).
struct DeepArg { size_t n; int variant; bool ok; std::string why; };
static void *deep_worker_body(void *pv);
static void *deep_worker(void *pv) {
	DeepArg &a = *(DeepArg *)pv;
	try { return deep_worker_body(pv); } catch(const PanicStop &p) { a.ok = false; a.why = std::string("library assertion fired: ") + p.msg; }
	return nullptr;
}
static void *deep_worker_body(void *pv) {
	DeepArg &a = *(DeepArg *)pv;
	std::vector<HNode> pool(a.n);
	Heap h;
	// variant 0: descending priorities (every push becomes a child of the root); 1: all equal; 2: one big root + equal children, then remove() of a demoted element
	for(size_t i = 0; i < a.n; i++) { pool[i].prio = a.variant == 0 ? (int)(a.n - i) : (i == 0 ? 5 : 3); pool[i].id = (int)i; reset_hook(pool[i]); h.push(&pool[i]); }
	auto bad = [&](const std::string &w) { if(a.ok) { a.ok = false; a.why = w; } };
	HNode *t = h.top();
	if(t != &pool[0]) bad("top() is not the first (largest) element before the pop");
	h.pop(); // collapses n-1 siblings
	if(t->hook.child || t->hook.backlink || t->hook.sibling) bad("hook of the popped root not reset");
	size_t left = a.n - 1;
	if(a.variant == 2) {
		// the new root has a long child list again after a second pop; remove a non-root element that has many children
		HNode *r2 = h.top(); h.pop(); left--;
		if(r2->prio != 3) bad("second pop returned a wrong priority");
		HNode *victim = h.top()->hook.child; // first child of the root: carries a large subtree after the pairing pass
		if(victim) { h.remove(victim); left--; if(victim->hook.child || victim->hook.backlink || victim->hook.sibling) bad("hook of the removed element not reset"); }
	}
	// verified drain (the heap must be empty when it is destroyed): non-increasing priorities, nothing repeated, nothing lost
	int last = 1 << 30; std::vector<bool> seen(a.n, false); size_t popped = 0;
	while(!h.empty() && popped <= a.n) { HNode *x = h.top(); if(x->prio > last) bad("drain order"); if(seen[x->id]) bad("element returned twice"); seen[x->id] = true; last = x->prio; h.pop(); popped++; }
	if(popped != left) bad(strf("the drain returned %zu elements, %zu were left in the heap", popped, left));
	left -= popped <= left ? popped : left;
	if(h.empty() != (left == 0)) bad("empty() disagrees with the number of elements left");
	return nullptr;
}
static void deep_sibling_lists() {
	if(!want_mode("deep")) return;
	long long idx = 0;
	for(int variant = 0; variant < 3; variant++) for(size_t n : {size_t(50000), size_t(300001)}) {
		long long my = idx++;
		if(my % opt.nshards != opt.shard || !want_case(my)) continue;
		begin_case("deep", my);
		case_detail("variant %d, %zu elements, worker stack 256 KiB", variant, n);
		DeepArg a{n, variant, true, ""};
		pthread_attr_t at; pthread_attr_init(&at); pthread_attr_setstacksize(&at, 256 * 1024);
		pthread_t th;
		if(pthread_create(&th, &at, deep_worker, &a) != 0) { count("deep_thread_not_started"); continue; }
		pthread_join(th, nullptr);
		pthread_attr_destroy(&at);
		if(!a.ok) { g_trace = strf("variant %d: %zu pushes (%s), pop, ...", variant, n, variant == 0 ? "descending" : "equal"); g_bad = false; fail("deep-sibling-list", a.why); }
		note_distinct(mix(hash_str("deep"), variant * 1000003ull + n));
		count("deep_sibling_list_cases");
	}
	sample("deep: 300001 descending (or equal) pushes, pop of the root with 300000 children, remove of a demoted element, verified drain of 2000 - on a worker thread with a 256 KiB stack");
}

// ---- a non-intrusive heap: the elements are plain records and the heap's *locator object* owns a side table of hooks (the Locate
// template argument may carry state; the heap keeps one instance of it). Same reference-multiset oracle, removed hooks are checked
// by pushing the element again.
struct SNode { int prio; int id; };
struct SideTableLocate {
	std::unique_ptr<frg::pairing_heap_hook<SNode>[]> hooks{new frg::pairing_heap_hook<SNode>[64]()};
	frg::pairing_heap_hook<SNode> &operator()(SNode &n) { return hooks[n.id]; }
};
struct SCompare { bool operator()(SNode *a, SNode *b) const { return a->prio < b->prio; } };
static void side_table_heap() {
	if(!want_mode("side-table")) return;
	Rng sr(derive_seed("side-table"));
	for(uint64_t c = 0; c < scaled(200, 5000); c++) {
		uint64_t cs = sr.next();
		if(!want_case(c)) continue;
		begin_case("side-table", c);
		g_bad = false; g_trace.clear();
		Rng r(cs);
		guarded("C08", [&] {
			frg::pairing_heap<SNode, SideTableLocate, SCompare> h;
			std::vector<SNode> pool(64); std::vector<SNode *> live, out;
			for(int i = 0; i < 64; i++) { pool[i] = {0, i}; out.push_back(&pool[i]); }
			auto check = [&](const char *when) {
				if(h.empty() != live.empty()) return fail("empty", strf("side-table heap: empty()=%d with %zu elements contained (%s)", (int)h.empty(), live.size(), when));
				if(live.empty()) return;
				SNode *t = h.top();
				if(std::find(live.begin(), live.end(), t) == live.end()) return fail("top-not-contained", strf("side-table heap: top() is not a contained element (%s)", when));
				for(auto *x : live) if(t->prio < x->prio) return fail("top-not-max", strf("side-table heap: top() has priority %d but priority %d is contained (%s)", t->prio, x->prio, when));
			};
			unsigned nops = 20 + r.below(200);
			for(unsigned i = 0; i < nops && !g_bad; i++) {
				int op = r.below(5);
				if(live.empty()) op = 0;
				if(op <= 1 && !out.empty()) { size_t k = r.below(out.size()); SNode *x = out[k]; out.erase(out.begin() + k); x->prio = (int)r.below(6); h.push(x); live.push_back(x); g_trace += strf("push(p%d#%d) ", x->prio, x->id); }
				else if(op <= 3 && !live.empty()) { SNode *t = h.top(); h.pop(); auto it = std::find(live.begin(), live.end(), t); if(it == live.end()) { fail("pop-not-contained", "side-table heap: pop() removed an element that was not contained"); break; } live.erase(it); out.push_back(t); g_trace += "pop "; }
				else if(!live.empty()) { size_t k = r.below(live.size()); SNode *x = live[k]; h.remove(x); live.erase(live.begin() + k); out.push_back(x); g_trace += strf("remove(#%d) ", x->id); }
				check("after an operation");
			}
			int last = 1 << 30;
			while(!live.empty() && !g_bad) { SNode *t = h.top(); if(t->prio > last) fail("drain-order", "side-table heap: drain is not in non-increasing order"); last = t->prio; h.pop(); auto it = std::find(live.begin(), live.end(), t); if(it == live.end()) { fail("drain-lost", "side-table heap: drain popped an element that was not contained"); break; } live.erase(it); }
			if(!g_bad && !h.empty()) fail("drain-lost", "side-table heap: heap not empty after popping as many elements as were contained");
			if(g_bad) { while(!h.empty()) h.pop(); }
		});
		note_distinct(mix(hash_str("side-table"), cs)); count("side_table_histories");
	}
}

int main(int argc, char **argv) {
	parse_args(argc, argv, "c08_heap");
	rec.rule = "a case is one push/pop/remove history (removal targets chosen by structural role); after every operation empty()/top() are compared with the reference multiset "
		"(top contained and comp(top,x) false for all x), removed hooks must be reset and re-pushable, the final drain must yield each remaining element once in non-increasing order";
	bool t = opt.thorough();
	exhaustive("exh", t ? 7 : 6);
	random_histories("rand:small", scaled(400, 10000), 40, 300);
	random_histories("rand:large", scaled(6, 150), t ? 10000 : 2000, t ? 40000 : 6000);
	deep_sibling_lists();
	side_table_heap();
	sample("exh x=123456: length-6 sequence over {push p0..p3, pop, remove(role)} with checks after every op and a verified drain");
	sample("rand:large: up to 2000 (thorough 10000) elements, priority streams ascending/descending/3-valued/random, removal by role (root, first child, middle sibling, last sibling, leaf)");
	return finish();
}
