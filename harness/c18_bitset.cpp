// C18 (bitset part): frg::bitset<N> vs std::bitset<N>, bit-by-bit after every operation.
// Each frg::bitset lives between canary words in an exact-size heap block pre-filled with 0xA5, so
// uninitialised words and writes next to the object are deterministic mismatches; farther writes hit ASan red zones.
// Compile with -DNSET=<0..7>; set s covers N = s+1+8k (<=130) plus one large size.
#include "common/verif.hpp"
#include <frg/bitset.hpp>
#include <bitset>
#include <utility>

#ifndef NSET
#define NSET 0
#endif

using namespace verif;

static constexpr size_t EXTRA[8] = {191, 192, 193, 255, 256, 257, 320, 512};

template<size_t N>
struct Arena {
	static constexpr size_t W = (N + 63) / 64;
	static constexpr size_t PAD = 4;
	static_assert(sizeof(frg::bitset<N>) == W * 8, "unexpected bitset layout");
	uint64_t *blk;
	frg::bitset<N> *obj = nullptr;
	Arena() { blk = (uint64_t *)malloc((2 * PAD + W) * 8); memset(blk, 0xA5, (2 * PAD + W) * 8); construct(); }
	~Arena() { free(blk); }
	Arena(const Arena &) = delete;
	template<typename... A> frg::bitset<N> &construct(A... a) {
		memset(blk + PAD, 0xA5, W * 8);
		obj = new (blk + PAD) frg::bitset<N>(a...);
		return *obj;
	}
	bool canaries_ok() const {
		for(size_t i = 0; i < PAD; i++)
			if(blk[i] != 0xA5A5A5A5A5A5A5A5ull || blk[PAD + W + i] != 0xA5A5A5A5A5A5A5A5ull) return false;
		return true;
	}
	uint64_t word(size_t i) const { return blk[PAD + i]; }
};

template<size_t N>
static std::string bits_str(const std::bitset<N> &m) {
	if constexpr (N <= 80) return m.to_string();
	else return strf("(N=%zu count=%zu)", N, m.count());
}

template<size_t N>
struct Subject {
	Arena<N> a, tmp;
	std::bitset<N> m;
	std::string trace;
	bool bad = false;

	void fail(const char *what, const std::string &detail) {
		if(bad) return;
		bad = true;
		const char *nclass = (N % 64 == 0) ? "N%64=0" : "N%64!=0";
		violation(strf("C18:model:bitset:%s:%s", what, nclass),
			strf("frg::bitset<%zu> disagrees with std::bitset after [%s]: %s; model=%s", N, trace.c_str(), detail.c_str(), bits_str(m).c_str()));
	}

	// full comparison through the public API + raw padding/canaries
	void compare(const char *op) {
		if(bad) return;
		auto &b = *a.obj;
		const auto &cb = b;
		if(!a.canaries_ok()) return fail(op, "memory outside the object was modified (canary words)"), void();
		for(size_t i = 0; i < N; i++) {
			bool e = m[i];
			if(cb.test(i) != e) return fail(op, strf("test(%zu)=%d expected %d", i, (int)cb.test(i), (int)e)), void();
			if(cb[i] != e) return fail(op, strf("const operator[](%zu) expected %d", i, (int)e)), void();
		}
		if(b.count() != m.count()) return fail(op, strf("count()=%zu expected %zu", b.count(), m.count())), void();
		if(b.any() != m.any()) return fail(op, strf("any()=%d expected %d", (int)b.any(), (int)m.any())), void();
		if(b.all() != m.all()) return fail(op, strf("all()=%d expected %d", (int)b.all(), (int)m.all())), void();
		if(b.none() != m.none()) return fail(op, strf("none()=%d expected %d", (int)b.none(), (int)m.none())), void();
		if(b.size() != N) return fail(op, "size()"), void();
		if constexpr (N % 64 != 0) {
			uint64_t pad = a.word(N / 64) >> (N % 64);
			if(pad) return fail(op, strf("bits at or beyond N are set in the last word (padding=0x%llx)", (unsigned long long)pad)), void();
		}
		// equality against an independently built equal bitset and a different one
		auto &t = tmp.construct();
		for(size_t i = 0; i < N; i++) if(m[i]) t.set(i);
		if(!(b == t)) return fail(op, "operator== false against a bitset with identical bits"), void();
		if(!(t == b)) return fail(op, "operator== (reversed) false against a bitset with identical bits"), void();
		t.flip(N / 2);
		if(b == t) return fail(op, "operator== true against a bitset differing in one bit"), void();
	}

	void load_tmp(const std::bitset<N> &o) {
		auto &t = tmp.construct();
		for(size_t i = 0; i < N; i++) if(o[i]) t.set(i);
	}
};

static std::bitset<1> dummy;

template<size_t N>
static std::bitset<N> model_shl(const std::bitset<N> &m, size_t pos) { return pos >= N ? std::bitset<N>() : (m << pos); }
template<size_t N>
static std::bitset<N> model_shr(const std::bitset<N> &m, size_t pos) { return pos >= N ? std::bitset<N>() : (m >> pos); }

template<size_t N>
static std::bitset<N> random_bits(Rng &r) {
	std::bitset<N> o;
	switch(r.below(5)) {
	case 0: break;
	case 1: o.set(); break;
	case 2: for(size_t i = 0; i < N; i++) o[i] = r.next() & 1; break;
	case 3: for(size_t i = 0; i < N; i++) o[i] = (r.below(8) == 0); break;
	default: for(size_t i = 0; i < N; i++) o[i] = (i % 64 == 0 || i % 64 == 63 || i == N - 1); break;
	}
	return o;
}

// One abstract operation; `code` selects the kind, p/q are parameters (positions, shift amounts, values).
struct Op { int code; uint64_t p, q; };
enum { O_CTOR_DEF, O_CTOR_VAL, O_SET_ALL, O_SET, O_RESET_ALL, O_RESET, O_FLIP_ALL, O_FLIP, O_REF_BOOL, O_REF_REF, O_REF_NOT, O_REF_FLIP,
	O_AND, O_OR, O_XOR, O_NOT, O_SHL_EQ, O_SHR_EQ, O_SHL, O_SHR, O_BAND, O_BOR, O_BXOR, O_COPY, O_NOPS };
static const char *OPN[] = {"ctor()", "ctor(val)", "set()", "set(pos,v)", "reset()", "reset(pos)", "flip()", "flip(pos)", "ref=bool", "ref=ref", "~ref", "ref.flip()",
	"&=", "|=", "^=", "~", "<<=", ">>=", "<<", ">>", "&", "|", "^", "copy"};

template<size_t N>
static void apply(Subject<N> &s, const Op &op, Rng &r) {
	auto &b = *s.a.obj;
	auto &m = s.m;
	size_t pos = op.p % N, pos2 = op.q % N;
	s.trace += strf("%s%s(%llu,%llu)", s.trace.empty() ? "" : " ", OPN[op.code], (unsigned long long)op.p, (unsigned long long)op.q);
	switch(op.code) {
	case O_CTOR_DEF: s.a.construct(); m.reset(); break;
	case O_CTOR_VAL: s.a.construct((unsigned long long)op.p); m = std::bitset<N>((unsigned long long)op.p); break;
	case O_SET_ALL: b.set(); m.set(); break;
	case O_SET: b.set(pos, op.q & 1); m.set(pos, op.q & 1); break;
	case O_RESET_ALL: b.reset(); m.reset(); break;
	case O_RESET: b.reset(pos); m.reset(pos); break;
	case O_FLIP_ALL: b.flip(); m.flip(); break;
	case O_FLIP: b.flip(pos); m.flip(pos); break;
	case O_REF_BOOL: b[pos] = (bool)(op.q & 1); m[pos] = (bool)(op.q & 1); break;
	case O_REF_REF: b[pos] = b[pos2]; m[pos] = m[pos2]; break;
	case O_REF_NOT: {
		bool got = ~b[pos]; bool exp = ~m[pos];
		if(got != exp) s.fail("~ref", strf("~b[%zu]=%d expected %d", pos, (int)got, (int)exp));
		bool asb = b[pos]; if(asb != m[pos]) s.fail("ref-bool", "bool(b[pos])");
		break; }
	case O_REF_FLIP: b[pos].flip(); m[pos].flip(); break;
	case O_AND: case O_OR: case O_XOR: case O_BAND: case O_BOR: case O_BXOR: {
		Rng rr(op.p * 77 + op.q);
		std::bitset<N> o = random_bits<N>(rr);
		s.load_tmp(o);
		auto &t = *s.tmp.obj;
		if(op.code == O_AND) { b &= t; m &= o; }
		else if(op.code == O_OR) { b |= t; m |= o; }
		else if(op.code == O_XOR) { b ^= t; m ^= o; }
		else {
			frg::bitset<N> res = op.code == O_BAND ? (b & t) : op.code == O_BOR ? (b | t) : (b ^ t);
			std::bitset<N> mres = op.code == O_BAND ? (m & o) : op.code == O_BOR ? (m | o) : (m ^ o);
			if(!s.tmp.canaries_ok()) s.fail("binary-op", "operand modified outside");
			// operands unchanged
			for(size_t i = 0; i < N; i++) if(((const frg::bitset<N> &)t)[i] != o[i]) { s.fail("binary-op", "right operand changed"); break; }
			s.compare(OPN[op.code]);
			// continue with the result as the subject
			auto &nb = s.a.construct(); // re-create then copy-assign result
			nb = res; m = mres;
		}
		break; }
	case O_NOT: { frg::bitset<N> res = ~b; s.compare("~(operand unchanged)"); auto &nb = s.a.construct(); nb = res; m = ~m; break; }
	case O_SHL_EQ: b <<= (size_t)op.p; m = model_shl(m, (size_t)op.p); break;
	case O_SHR_EQ: b >>= (size_t)op.p; m = model_shr(m, (size_t)op.p); break;
	case O_SHL: { frg::bitset<N> res = b << (size_t)op.p; s.compare("<<(operand unchanged)"); auto &nb = s.a.construct(); nb = res; m = model_shl(m, (size_t)op.p); break; }
	case O_SHR: { frg::bitset<N> res = b >> (size_t)op.p; s.compare(">>(operand unchanged)"); auto &nb = s.a.construct(); nb = res; m = model_shr(m, (size_t)op.p); break; }
	case O_COPY: { frg::bitset<N> c = b; auto &nb = s.a.construct(); nb = c; break; }
	}
	(void)r;
	s.compare(OPN[op.code]);
}

template<size_t N>
static uint64_t shift_amount(Rng &r) {
	switch(r.below(10)) {
	case 0: return 0;
	case 1: return N;
	case 2: return N - 1;
	case 3: return N + 1 + r.below(130);
	case 4: return 64 * r.below(N / 64 + 3);
	case 5: return 64 * r.below(N / 64 + 3) + (r.chance(1, 2) ? 1 : 63);
	case 6: return r.pick(std::vector<uint64_t>{2 * N, 1000, 1ull << 20, 1ull << 32, (1ull << 63), ~0ull, ~0ull - 63, ~0ull - 64});
	default: return r.below(N + 1);
	}
}

static uint64_t ctor_value(Rng &r) {
	switch(r.below(8)) {
	case 0: return 0;
	case 1: return ~0ull;
	case 2: return 1;
	case 3: return 1ull << 63;
	case 4: return 0xAAAAAAAAAAAAAAAAull;
	case 5: return (1ull << r.below(64)) - 1;
	default: return r.next();
	}
}

template<size_t N>
static Op random_op(Rng &r) {
	Op op;
	op.code = r.below(O_NOPS);
	op.p = r.next(); op.q = r.next();
	if(op.code == O_CTOR_VAL) op.p = ctor_value(r);
	if(op.code >= O_SHL_EQ && op.code <= O_SHR) op.p = shift_amount<N>(r);
	if(op.code == O_SET || op.code == O_RESET || op.code == O_FLIP || (op.code >= O_REF_BOOL && op.code <= O_REF_FLIP)) {
		// boundary-biased positions
		switch(r.below(6)) { case 0: op.p = 0; break; case 1: op.p = N - 1; break; case 2: op.p = (N / 64) * 64 % N; break; case 3: op.p = (63 < N ? 63 : N - 1); break; default: break; }
	}
	return op;
}

template<size_t N>
static void run_random(uint64_t ncases, unsigned len) {
	char mode[32]; snprintf(mode, sizeof mode, "rand:N=%zu", N);
	if(!want_mode(mode)) return;
	Rng seedr(derive_seed("bitset-rand", N));
	for(uint64_t c = 0; c < ncases; c++) {
		uint64_t cs = seedr.next();
		if(!want_case(c)) continue;
		begin_case(mode, c);
		Rng r(cs);
		Subject<N> s;
		// start: default or value constructor
		Op first; first.code = r.chance(1, 2) ? O_CTOR_DEF : O_CTOR_VAL; first.p = ctor_value(r); first.q = 0;
		uint64_t h = mix(N, first.code * 1000003 + first.p);
		apply(s, first, r);
		unsigned l = 1 + r.below(len);
		for(unsigned i = 0; i < l && !s.bad; i++) {
			Op op = random_op<N>(r);
			h = mix(h, op.code); h = mix(h, op.p); h = mix(h, op.q);
			apply(s, op, r);
			if(s.trace.size() > 1500) s.trace = "...";
		}
		if(l >= 2) note_distinct(h);
		if(c == 0 && N <= 70) sample(strf("bitset<%zu> random: %s => %s", N, s.trace.substr(0, 300).c_str(), bits_str(s.m).c_str()), 6);
		count("bitset_random_sequences");
	}
}

// bounded-exhaustive sequences over a fixed alphabet of concrete operations
template<size_t N>
static std::vector<Op> alphabet() {
	std::vector<Op> a;
	a.push_back({O_CTOR_DEF, 0, 0});
	a.push_back({O_CTOR_VAL, ~0ull, 0});
	a.push_back({O_CTOR_VAL, 0x8000000000000005ull, 0});
	a.push_back({O_SET_ALL, 0, 0});
	a.push_back({O_FLIP_ALL, 0, 0});
	a.push_back({O_SET, N - 1, 1});
	a.push_back({O_SET, 0, 1});
	a.push_back({O_RESET, N / 2, 0});
	a.push_back({O_FLIP, N - 1, 0});
	a.push_back({O_REF_BOOL, N / 2, 1});
	a.push_back({O_REF_REF, N - 1, 0});
	a.push_back({O_REF_NOT, 0, 0});
	a.push_back({O_REF_FLIP, N - 1, 0});
	a.push_back({O_XOR, 3, 4});
	a.push_back({O_AND, 5, 6});
	a.push_back({O_OR, 7, 9});
	a.push_back({O_NOT, 0, 0});
	for(uint64_t sh : {(uint64_t)1, (uint64_t)63, (uint64_t)64, (uint64_t)(N - 1), (uint64_t)N, (uint64_t)(N + 64), (uint64_t)65}) {
		a.push_back({O_SHL_EQ, sh, 0});
		a.push_back({O_SHR_EQ, sh, 0});
	}
	a.push_back({O_SHL, N / 2 + 1, 0});
	a.push_back({O_SHR, N / 2 + 1, 0});
	return a;
}

template<size_t N>
static void run_exhaustive(unsigned len) {
	char mode[32]; snprintf(mode, sizeof mode, "exh:N=%zu", N);
	if(!want_mode(mode)) return;
	auto alpha = alphabet<N>();
	size_t A = alpha.size();
	uint64_t total = 1;
	for(unsigned i = 0; i < len; i++) total *= A;
	Rng r(1);
	for(uint64_t c = 0; c < total; c++) {
		if(!want_case(c)) continue;
		begin_case(mode, c);
		Subject<N> s;
		Op first{O_CTOR_DEF, 0, 0};
		apply(s, first, r);
		uint64_t x = c;
		for(unsigned i = 0; i < len && !s.bad; i++) { apply(s, alpha[x % A], r); x /= A; }
		note_distinct(mix(mix(N, len), c));
		count("bitset_exhaustive_sequences");
	}
	rec.notes[strf("exhaustive_bitset_N%zu", N)] = strf("all %llu sequences of length %u over %zu concrete ops", (unsigned long long)total, len, A);
}

// every shift amount 0..N+130 applied to boundary patterns (two-dimensional sweep N x shift)
template<size_t N>
static void run_shift_sweep() {
	char mode[32]; snprintf(mode, sizeof mode, "shift:N=%zu", N);
	if(!want_mode(mode)) return;
	Rng r(derive_seed("shift", N));
	long long c = 0;
	for(int pat = 0; pat < 4; pat++) {
		std::bitset<N> start;
		if(pat == 0) start.set(); else if(pat == 1) { start.set(0); start.set(N - 1); } else start = random_bits<N>(r);
		for(size_t sh = 0; sh <= N + 130; sh++) {
			for(int dir = 0; dir < 2; dir++, c++) {
				if(!want_case(c)) continue;
				begin_case(mode, c);
				Subject<N> s;
				Op first{O_CTOR_DEF, 0, 0};
				apply(s, first, r);
				for(size_t i = 0; i < N; i++) if(start[i]) s.a.obj->set(i);
				s.m = start;
				s.trace = "load(pattern)";
				s.compare("load");
				Op op{dir ? O_SHR_EQ : O_SHL_EQ, sh, 0};
				apply(s, op, r);
				note_distinct(mix(mix(N, sh * 2 + dir), pat + 100));
				count("bitset_shift_cases");
			}
		}
	}
}

template<size_t N>
static void run_n() {
	if constexpr (N <= 130 || N == EXTRA[NSET]) {
		bool small = (N <= 4 || N == 63 || N == 64 || N == 65 || N == 127 || N == 128 || N == 129);
		run_shift_sweep<N>();
		run_random<N>(scaled(60, 1500), opt.thorough() ? 200 : 60);
		if(small) run_exhaustive<N>(opt.thorough() ? 3 : 2);
		else if(opt.thorough() && (N % 16 == 0 || N % 16 == 1)) run_exhaustive<N>(2);
	}
}

template<size_t... K>
static void run_all(std::index_sequence<K...>) {
	(run_n<NSET + 1 + 8 * K>(), ...);
	run_n<EXTRA[NSET]>();
}

// ---- bitsets with static storage duration that are written while other namespace-scope objects are still being constructed
// (CPU masks, feature flags): the constructors are constexpr, so like std::bitset they are constant-initialised and bits set by the
// constructor of an *earlier* global are still set when main() starts.
extern frg::bitset<70> g_early_bits; extern std::bitset<70> g_early_bits_ref;
extern frg::bitset<64> g_early_bits_v; extern std::bitset<64> g_early_bits_v_ref;
static struct EarlySetter { EarlySetter() { for(int i : {0, 3, 63, 64, 69}) { g_early_bits.set(i); g_early_bits_ref.set(i); } g_early_bits_v.flip(5); g_early_bits_v_ref.flip(5); } } g_early_setter;
frg::bitset<70> g_early_bits; std::bitset<70> g_early_bits_ref;
frg::bitset<64> g_early_bits_v{0xF0F0ull}; std::bitset<64> g_early_bits_v_ref{0xF0F0ull};
static void static_init_case() {
	begin_case("static-init", 0);
	for(size_t i = 0; i < 70; i++) if(g_early_bits.test(i) != g_early_bits_ref.test(i)) { violation("C18:model:bitset:static-init", strf("bit %zu of a namespace-scope bitset<70> written by the constructor of an earlier global is %d when main() starts (std::bitset used the same way: %d)", i, (int)g_early_bits.test(i), (int)g_early_bits_ref.test(i))); break; }
	for(size_t i = 0; i < 64; i++) if(g_early_bits_v.test(i) != g_early_bits_v_ref.test(i)) { violation("C18:model:bitset:static-init", strf("bit %zu of a namespace-scope bitset<64>{0xF0F0} flipped by the constructor of an earlier global differs from std::bitset when main() starts", i)); break; }
	if(g_early_bits.count() != g_early_bits_ref.count()) violation("C18:model:bitset:static-init", "count() of a namespace-scope bitset written during static initialisation differs from std::bitset");
	count("bitsets_written_during_static_initialisation", 2);
	note_distinct(mix(0xE3, 1));
}

int main(int argc, char **argv) {
	parse_args(argc, argv, "c18_bitset");
	rec.rule = "bitset: a case is one operation sequence (constructor + ops) on frg::bitset<N> compared bit-by-bit with std::bitset<N> after every op; "
		"distinct = hash of (N, op codes, parameters), counted only for sequences with >= 2 ops";
	if(want_mode("static-init") && want_case(0)) static_init_case();
	run_all(std::make_index_sequence<17>());
	return finish();
}
