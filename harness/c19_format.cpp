// C19: (a) printf_format + do_printf_* vs glibc vsnprintf ("C" locale) byte for byte, arguments delivered through an exact-size
// va_list, format strings in exact-size buffers; (b) fmt() vs an independent interpreter of the documented {}-spec grammar;
// (c) stack_buffer_logger chunking: concatenation of the emitted chunks == the message.
#include "printf_common.hpp"
#include <algorithm>

using namespace verif;
using namespace pf;

// ------------------------------------------------------------------ (a) printf differential
struct Val { uint64_t slot; const char *cls; };

static std::vector<Val> int_values(const std::string &len, bool is_signed, Rng &r, bool garbage_upper) {
	int bits = len == "hh" ? 8 : len == "h" ? 16 : len == "" ? 32 : 64;
	std::vector<Val> v;
	auto put = [&](uint64_t x, const char *cls) {
		// callers leave the upper bits of a narrower argument's slot unspecified; va_arg(int) reads only the low 4 bytes
		if(bits <= 32 && garbage_upper) x = (x & 0xffffffffull) | (r.next() << 32);
		v.push_back({x, cls});
	};
	uint64_t maxs = bits == 64 ? (uint64_t)INT64_MAX : ((1ull << (bits - 1)) - 1);
	if(is_signed) {
		put(0, "zero"); put(1, "pos"); put((uint64_t)-1, "neg"); put(42, "pos"); put((uint64_t)-42, "neg");
		put(maxs, "pos"); put(bits == 64 ? (uint64_t)INT64_MIN : (uint64_t)(-(int64_t)maxs - 1), "neg"); put(1234567, "pos"); put((uint64_t)-1234567, "neg");
	} else {
		uint64_t maxu = bits == 64 ? ~0ull : ((1ull << bits) - 1);
		put(0, "zero"); put(1, "pos"); put(42, "pos"); put(maxu, "pos"); put(maxs + 1, "pos"); put(255, "pos"); put(1234567, "pos");
	}
	return v;
}

static uint64_t g_mismatches = 0;

struct Case { std::string fmt; std::vector<uint64_t> slots; std::string key, desc, expected_override; bool use_override = false; };

static std::vector<std::unique_ptr<GuardedBuf>> g_strs;
static uint64_t str_slot(const std::string &s) {
	std::string z = s; z.push_back('\0');
	g_strs.emplace_back(new GuardedBuf(z.data(), z.size()));
	return (uint64_t)g_strs.back()->data();
}

static uint64_t wstr_slot(const std::wstring &s) { // ASCII-only wide strings: their multibyte form in any locale is the same characters
	std::wstring z = s; z.push_back(L'\0');
	g_strs.emplace_back(new GuardedBuf(z.data(), z.size() * sizeof(wchar_t)));
	return (uint64_t)g_strs.back()->data();
}

// a character array of exactly n elements with NO terminator behind it (the byte after it is unaddressable): what "%.Ns" may be given
static uint64_t unterminated_slot(size_t n, bool wide) {
	if(wide) { std::wstring z(n, L'u'); for(size_t i = 0; i < n; i++) z[i] = L'a' + (wchar_t)(i % 26); g_strs.emplace_back(new GuardedBuf(z.data(), n * sizeof(wchar_t))); }
	else { std::string z(n, 'u'); for(size_t i = 0; i < n; i++) z[i] = (char)('a' + i % 26); g_strs.emplace_back(new GuardedBuf(z.data(), n)); }
	return (uint64_t)g_strs.back()->data();
}

// What POSIX prescribes for the ' flag on a d/i/u conversion, derived from the (correct) output without grouping: the digits are
// split into groups from the right by the locale's grouping sizes (last size repeats), separated by the locale's separator; sign
// and padding to the field width (counted in bytes) stay as they are. Returns false where the expectation is not clear-cut
// (zero padding from a precision or the 0 flag: implementations differ on whether those zeros are grouped).
static bool grouped_expectation(const std::string &fmt, const std::string &plain, const char *sep, const char *grouping, std::string &out) {
	if(fmt.size() < 2 || fmt[0] != '%' || fmt.find('%', 1) != std::string::npos || !strchr("diu", fmt.back())) return false;
	size_t i = 0, n = plain.size();
	while(i < n && plain[i] == ' ') i++;
	size_t lead = i;
	std::string sign;
	if(i < n && (plain[i] == '-' || plain[i] == '+')) sign = plain[i++];
	size_t d0 = i; while(i < n && plain[i] >= '0' && plain[i] <= '9') i++;
	std::string digits = plain.substr(d0, i - d0);
	size_t t0 = i; while(i < n && plain[i] == ' ') i++;
	if(i != n) return false;
	size_t trail = n - t0;
	if(digits.empty() || (digits.size() > 1 && digits[0] == '0')) return false;
	// the "space" flag puts one blank where the sign would be: it belongs to the number, not to the padding
	std::string flags = fmt.substr(1, fmt.find_first_not_of("-+ 0'#", 1) - 1);
	if(sign.empty() && fmt.back() != 'u' && flags.find(' ') != std::string::npos && flags.find('+') == std::string::npos) { /* signed conversions only */ if(!lead) return false; sign = " "; lead--; }
	std::string body; size_t gi = 0, in_group = 0;
	for(size_t k = digits.size(); k-- > 0; ) {
		int gs = (signed char)grouping[gi];
		if(gs > 0 && gs != 127 && in_group == (size_t)gs) { body.insert(0, sep); in_group = 0; if(grouping[gi + 1]) gi++; }
		body.insert(body.begin(), digits[k]); in_group++;
	}
	body = sign + body;
	size_t width = (lead || trail) ? n : 0;
	out = body;
	if(out.size() < width) { if(trail) out += std::string(width - out.size(), ' '); else out = std::string(width - out.size(), ' ') + out; }
	return true;
}

static void compare(const Case &c, bool informational = false) {
	std::string z = c.fmt; z.push_back('\0');
	GuardedBuf gf(z.data(), z.size());
	case_detail("format \"%s\" with %zu argument slots", c.fmt.c_str(), c.slots.size());
	std::string exp = (c.expected_override.empty() && !c.use_override) ? run_glibc(gf.data(), c.slots) : c.expected_override;
	FriggResult fr = run_frigg(gf.data(), c.slots);
	count("printf_directives_compared");
	if(fr.panicked) {
		if(informational) { count("info_b_conversion_mismatch"); return; }
		case_detail("format \"%s\"", c.fmt.c_str());
		violation("C19:printf:assert:" + c.key, strf("printf_format(\"%s\") stopped at a library assertion (%s) on a directive ISO C defines; glibc prints \"%s\"", c.fmt.c_str(), fr.panic.c_str(), exp.substr(0, 100).c_str()));
		g_mismatches++; return;
	}
	// without the ' flag the locale's grouping must not matter: the same directive with the locale_options of an en_US-like
	// locale handed to do_printf_ints has to produce the same bytes
	if(c.fmt.find('\'') == std::string::npos && !informational && fr.out == exp) { // (only where the default-locale run is right: one defect, one report)
		FriggResult fl = run_frigg(gf.data(), c.slots, false, false, 1);
		count("printf_directives_compared_with_locale_options");
		if(!fl.panicked && fl.out != exp) {
			case_detail("format \"%s\"", c.fmt.c_str());
			violation("C19:printf:locale-options:" + c.key, strf("printf_format(\"%s\", %s) with locale_options(\".\", \",\", groups of 3) produced \"%s\", ISO C / glibc produces \"%s\" (no ' flag: grouping does not apply)", c.fmt.c_str(), c.desc.c_str(), fl.out.substr(0, 120).c_str(), exp.substr(0, 120).c_str()));
			g_mismatches++;
		}
	}
	// with the ' flag the same locale_options group the digits of d/i/u conversions
	if(c.fmt.find('\'') != std::string::npos && !informational && fr.out == exp) {
		for(int kind = 1; kind <= 4; kind++) {
			auto lk = Agent::locale_kind(kind);
			std::string want;
			if(!grouped_expectation(c.fmt, exp, lk.sep, lk.grouping, want)) { count("printf_grouping_expectation_not_clear_cut"); break; }
			FriggResult fl = run_frigg(gf.data(), c.slots, false, false, kind);
			count("printf_directives_compared_with_grouping");
			if(fl.panicked || fl.out != want) {
				case_detail("format \"%s\"", c.fmt.c_str());
				violation("C19:printf:grouping:" + c.key, strf("printf_format(\"%s\", %s) with the locale_options of a locale that is %s produced \"%s\"%s, POSIX prescribes \"%s\"", c.fmt.c_str(), c.desc.c_str(), lk.name, fl.out.substr(0, 120).c_str(), fl.panicked ? " and stopped at an assertion" : "", want.substr(0, 120).c_str()));
				g_mismatches++; break;
			}
		}
	}
	if(fr.out != exp) {
		if(informational) { count("info_b_conversion_mismatch"); return; }
		case_detail("format \"%s\"", c.fmt.c_str());
		violation("C19:printf:" + c.key, strf("printf_format(\"%s\", %s) produced \"%s\", ISO C / glibc produces \"%s\"", c.fmt.c_str(), c.desc.c_str(), fr.out.substr(0, 120).c_str(), exp.substr(0, 120).c_str()));
		g_mismatches++;
	}
}

static std::string flagset(unsigned mask, const char *alphabet) { std::string s; for(int i = 0; alphabet[i]; i++) if(mask & (1u << i)) s.push_back(alphabet[i]); return s; }

static void printf_grid() {
	if(!want_mode("printf-grid")) return;
	Rng r(derive_seed("grid"));
	const char *convs = "diuoxXcsp";
	const std::vector<std::string> widths = {"", "1", "2", "5", "12", "70", "*"};
	const std::vector<std::string> precs = {"", ".", ".0", ".1", ".3", ".12", ".70", ".*"};
	const std::vector<std::string> lens = {"", "hh", "h", "l", "ll", "z", "t", "j"};
	long long idx = 0;
	for(const char *cp = convs; *cp; cp++) {
		char conv = *cp;
		bool is_int = strchr("diuoxX", conv), is_signed = (conv == 'd' || conv == 'i');
		const char *alphabet = is_signed ? "-+ 0'" : conv == 'u' ? "-0'+ " : is_int ? "-0#+ " : (conv == 'p' ? "" : "-");
		unsigned nmask = 1u << strlen(alphabet);
		for(unsigned mask = 0; mask < nmask; mask++) {
			std::string flags = flagset(mask, alphabet);
			for(auto &w : widths) for(auto &p : precs) for(auto &len : lens) {
				bool wide_s = (conv == 's' && len == "l");      // %ls with ASCII-only wide strings: ISO C output = the same characters
				if(!is_int && len != "" && !wide_s) continue;   // c, p: no length modifier compared (%lc is documented as unsupported by frigg)
				if(conv == 'c' && p != "") continue;          // precision with %c is undefined
				if(conv == 'p' && (w != "" || p != "")) continue;
				long long my = idx++;
				if(my % opt.nshards != opt.shard) continue;
				if(!want_case(my)) continue;
				begin_case("printf-grid", my);
				std::string wtxt = w;
				std::vector<uint64_t> pre;
				// '*' arguments: also negative ones (ISO C: a negative width is the - flag plus a positive width, a negative precision counts as omitted)
				if(w == "*") pre.push_back((uint64_t)(uint32_t)r.pick(std::vector<int>{0, 1, 7, 20, -1, -7, -20}) | (r.next() << 32));
				if(p == ".*") pre.push_back((uint64_t)(uint32_t)r.pick(std::vector<int>{0, 1, 4, 15, -1, -6}) | (r.next() << 32));
				std::string fmt = "%" + flags + wtxt + p + len + std::string(1, conv);
				std::vector<Val> vals; std::vector<size_t> unterminated_len;
				if(is_int) vals = int_values(len, is_signed, r, my % 2);
				else if(conv == 'c') vals = {{'a', "pos"}, {(uint64_t)'Z' | 0xabcdef00ull << 8, "pos"}};
				else if(wide_s) { vals = {{wstr_slot(L""), "zero"}, {wstr_slot(L"a"), "pos"}, {wstr_slot(L"hello world"), "pos"}, {wstr_slot(std::wstring(80, L'x')), "pos"}};
					if(my % 4 == 0) for(size_t n : {127, 128, 129, 300}) { std::wstring z; for(size_t i = 0; i < n; i++) z.push_back(L'a' + (wchar_t)(i % 26)); vals.push_back({wstr_slot(z), "long"}); } }
				else if(conv == 's') { vals = {{str_slot(""), "zero"}, {str_slot("a"), "pos"}, {str_slot("hello world"), "pos"}, {str_slot(std::string(80, 'x')), "pos"}};
					// long strings (a helper that copies through a fixed-size block shows at its block size): every character distinct from its neighbours
					if(my % 4 == 0) for(size_t n : {127, 128, 129, 255, 256, 257, 1000}) { std::string z; for(size_t i = 0; i < n; i++) z.push_back((char)('a' + i % 26)); vals.push_back({str_slot(z), "long"}); } }
				else vals = {{0, "zero"}, {0xdeadbeefull, "pos"}, {~0ull, "pos"}, {0x7ffc12345678ull, "pos"}};
				// ISO C: with a precision, %s takes an array that need not be terminated; at most `precision` elements are read
				if(conv == 's' && p != "") {
					long pv = p == ".*" ? (long)(int32_t)(uint32_t)pre.back() : (p == "." ? 0 : atol(p.c_str() + 1));
					if(pv >= 0 && pv <= 200) { vals.push_back({unterminated_slot((size_t)pv, wide_s), "unterminated"}); unterminated_len.push_back((size_t)pv); if(pv >= 1) { vals.push_back({unterminated_slot((size_t)pv + 3, wide_s), "unterminated"}); unterminated_len.push_back((size_t)pv + 3); } count("printf_unterminated_string_arguments"); }
				}
				size_t ui = 0;
				for(auto &v : vals) {
					Case c; c.fmt = fmt; c.slots = pre; c.slots.push_back(v.slot);
					if(!strcmp(v.cls, "unterminated")) {
						// the reference runs on a terminated copy of the same characters (the sanitizer's own printf interceptor looks for
						// a terminator); with the precision in force both denote the same output
						size_t n = unterminated_len[ui++];
						std::vector<uint64_t> rs = pre;
						if(wide_s) { std::wstring z(n, L'u'); for(size_t i = 0; i < n; i++) z[i] = L'a' + (wchar_t)(i % 26); rs.push_back(wstr_slot(z)); }
						else { std::string z(n, 'u'); for(size_t i = 0; i < n; i++) z[i] = (char)('a' + i % 26); rs.push_back(str_slot(z)); }
						std::string zf = fmt; zf.push_back('\0'); GuardedBuf gz(zf.data(), zf.size());
						c.expected_override = run_glibc(gz.data(), rs);
						c.use_override = true;
					}
					std::string wc = w == "" ? "none" : w == "*" ? "star" : (atoi(w.c_str()) <= 2 ? "small" : "large");
					std::string pc = p == "" ? "none" : p == ".*" ? "star" : (p == "." || p == ".0") ? "zero" : (atoi(p.c_str() + 1) <= 3 ? "small" : "large");
					c.key = strf("%c/flags=%s/width=%s/prec=%s/len=%s/value=%s", conv, flags.c_str(), wc.c_str(), pc.c_str(), len.empty() ? "-" : len.c_str(), v.cls);
					c.desc = strf("value slot 0x%llx", (unsigned long long)v.slot);
					if(conv == 'p') c.expected_override = strf("0x%llx", (unsigned long long)v.slot); // frigg's documented form (ISO C: implementation-defined)
					compare(c);
					note_distinct(hash_str(c.key));
				}
			}
		}
	}
	// %% and literal text
	for(const char *f : {"%%", "a%%b", "100%%", "%%%%", "plain text, no directives", ""}) { begin_case("printf-grid", idx++); Case c; c.fmt = f; c.key = "literal"; compare(c); }
	rec.notes["printf_grid"] = "conversions {d,i,u,o,x,X,c,s,p} x every subset of the flags ISO C allows for them (+ and space on unsigned included: they must have no effect) x width {none,1,2,5,12,70,*} x "
		"precision {none,.,.0,.1,.3,.12,.70,.*} x length {none,hh,h,l,ll,z,t,j} x boundary values (0, +-1, +-42, min, max of the modifier, high bit); upper slot bits of narrow arguments are garbage in every other case";
}

static void printf_positional_and_multi() {
	if(!want_mode("printf-multi")) return;
	Rng sr(derive_seed("multi"));
	uint64_t n = scaled(4000, 200000);
	const char *convs = "diuoxXcs";
	for(uint64_t i = 0; i < n; i++) {
		uint64_t cs = sr.next();
		if(!want_case(i)) continue;
		begin_case("printf-multi", i);
		Rng r(cs);
		bool positional = r.chance(1, 3);
		int nd = 1 + r.below(positional ? 5 : 4);
		std::string fmt; std::vector<uint64_t> slots;
		std::string key = positional ? "positional" : "multi";
		if(positional) {
			// all directives positional, literal width/precision, every position 1..nargs referenced at least once,
			// all arguments of int class and the same size (a format is a sequence of %n$ directives over one argument list)
			int nargs = 1 + r.below(std::min(nd, 9));
			std::vector<int> order;
			for(int a = 1; a <= nargs; a++) order.push_back(a);
			while((int)order.size() < nd) order.push_back(1 + r.below(nargs));
			for(size_t k = order.size(); k > 1; k--) std::swap(order[k - 1], order[r.below(k)]);
			bool wide = r.chance(1, 2);
			std::vector<bool> is_str(nargs, false); // with 8-byte slots a position may also be a string (all fetches have one size)
			for(int a = 0; a < nargs; a++) {
				if(wide && r.chance(1, 4)) { is_str[a] = true; std::string sv; for(size_t q = r.below(12); q; q--) sv.push_back('a' + r.below(26)); slots.push_back(str_slot(sv)); continue; }
				uint64_t v = r.chance(1, 4) ? 0 : r.chance(1, 2) ? r.below(100000) : (uint64_t)-(int64_t)r.below(100000); slots.push_back(wide ? v : ((v & 0xffffffffull) | (r.next() << 32)));
			}
			for(int a : order) {
				if(r.chance(1, 2)) fmt += r.pick(std::vector<std::string>{" ", ", ", "x=", "[", "] ", "-"});
				if(is_str[a - 1]) { fmt += "%" + std::to_string(a) + "$" + (r.chance(1, 2) ? "-" : "") + (r.chance(1, 2) ? "" : std::to_string(1 + r.below(14))) + (r.chance(2, 3) ? "" : "." + std::to_string(r.below(8))) + "s"; continue; }
				char conv = "diuxXo"[r.below(6)];
				std::string fl = (conv == 'd' || conv == 'i') ? flagset(r.below(16), "-+ 0") : conv == 'u' ? flagset(r.below(4), "-0") : flagset(r.below(8), "-0#");
				std::string w = r.chance(1, 2) ? "" : std::to_string(1 + r.below(14));
				std::string p = r.chance(2, 3) ? "" : "." + std::to_string(r.below(8));
				fmt += "%" + std::to_string(a) + "$" + fl + w + p + (wide ? "l" : "") + std::string(1, conv);
			}
			key += wide ? ":long" : ":int";
		} else {
			for(int k = 0; k < nd; k++) {
				if(r.chance(2, 3)) fmt += r.pick(std::vector<std::string>{" ", "abc", ": ", "%%", "\n", "key=", "()"});
				char conv = convs[r.below(8)];
				bool is_signed = conv == 'd' || conv == 'i', is_int = strchr("diuoxX", conv);
				std::string fl = is_signed ? flagset(r.below(32), "-+ 0'") : is_int ? flagset(r.below(8), conv == 'u' ? "-0'" : "-0#") : flagset(r.below(2), "-");
				std::string w, p, len;
				if(r.chance(1, 2)) { if(r.chance(1, 4)) { w = "*"; slots.push_back(r.below(25) | (r.next() << 32)); } else w = std::to_string(1 + r.below(30)); }
				if(conv != 'c' && r.chance(1, 3)) { if(r.chance(1, 4)) { p = ".*"; slots.push_back(r.below(12) | (r.next() << 32)); } else p = "." + std::to_string(r.below(20)); }
				if(is_int) len = r.pick(std::vector<std::string>{"", "", "hh", "h", "l", "ll", "z", "t", "j"});
				fmt += "%" + fl + w + p + len + std::string(1, conv);
				if(is_int) { auto vs = int_values(len, is_signed, r, true); slots.push_back(r.chance(1, 2) ? vs[r.below(vs.size())].slot : (len == "" || len == "h" || len == "hh" ? (r.next()) : r.next() >> r.below(64))); }
				else if(conv == 'c') slots.push_back((uint64_t)(' ' + r.below(90)) | (r.next() << 8 & ~0xffull));
				else { std::string s; for(size_t q = r.below(20); q; q--) s.push_back('a' + r.below(26)); slots.push_back(str_slot(s)); }
			}
		}
		Case c; c.fmt = fmt; c.slots = slots; c.key = key; c.desc = strf("%zu argument slots", slots.size());
		compare(c);
		note_distinct(mix(hash_str(fmt), slots.size()));
		if(g_strs.size() > 4000) g_strs.clear();
	}
	// positional arguments of different sizes (valid POSIX): known finding, see known_findings.json
	{
		struct P { const char *fmt; std::vector<uint64_t> slots; } probes[] = {
			{"%2$d %1$ld", {1ull << 40 | 7, 5}}, {"%1$ld %2$d", {1ull << 40 | 7, 5}}, {"%2$x %1$lx %2$d", {0xAABBCCDD11223344ull, 9}}, {"%3$hhd %1$lld %2$d", {(uint64_t)INT64_MIN, 77, 200}}};
		long long i = 1000000;
		for(auto &pb : probes) {
			begin_case("printf-multi", i++);
			Case c; c.fmt = pb.fmt; c.slots = pb.slots; c.key = "positional-int-then-long"; c.desc = "mixed int/long positional arguments";
			// frigg is only wrong when a narrower fetch precedes the wider use of an earlier position
			compare(c);
			note_distinct(hash_str(std::string("posprobe:") + pb.fmt));
		}
	}
	sample("printf-multi: e.g. \"key=%-+8.3d: %#llx %5.2s%%\" or positional \"%2$08ld, %1$-5ld %2$lx\" with random argument values; whole output compared with vsnprintf");
}

// %b / %B are not in the property's grammar (C23); swept as an informational extra only
static void printf_binary_info() {
	if(!want_mode("printf-b")) return;
	Rng r(derive_seed("b"));
	long long idx = 0;
	for(const char *conv : {"b", "B"}) for(unsigned mask = 0; mask < 8; mask++) for(const char *w : {"", "12"}) for(const char *p : {"", ".0", ".9"}) {
		begin_case("printf-b", idx++);
		for(uint64_t v : {0ull, 1ull, 12ull, 0xffffffffull}) { Case c; c.fmt = std::string("%") + flagset(mask, "-0#") + w + p + conv; c.slots = {v | (r.next() << 32)}; c.key = "b"; compare(c, true); }
	}
}

// ------------------------------------------------------------------ (b) fmt() vs an independent spec interpreter
struct FArg { int kind; long long i; unsigned long long u; char c; std::string s; }; // kind: 0 int,1 long,2 unsigned,3 char,4 cstr,5 unsigned long long

static std::string render_int(unsigned long long mag, bool neg, int radix, bool caps, int width, bool zero) {
	const char *dg = caps ? "0123456789ABCDEF" : "0123456789abcdef";
	std::string d;
	do { d.insert(d.begin(), dg[mag % radix]); mag /= radix; } while(mag);
	std::string sign = neg ? "-" : "";
	int total = (int)(d.size() + sign.size());
	if(total >= width) return sign + d;
	if(zero) return sign + std::string(width - total, '0') + d; // the sign precedes the zero fill
	return std::string(width - total, ' ') + sign + d;
}

// reference interpreter of:  ([0-9]+)?(:0?[0-9]*[bcdioXx]?)?   -- returns false if the spec is malformed
static bool ref_spec(const std::string &spec, bool &has_pos, size_t &pos, bool &zero, long long &width, char &conv) {
	size_t i = 0; has_pos = false; pos = 0; zero = false; width = 0; conv = 0;
	while(i < spec.size() && isdigit((unsigned char)spec[i])) { has_pos = true; pos = pos * 10 + (spec[i] - '0'); if(pos > 1000000) return false; i++; }
	if(i == spec.size()) return true;
	if(spec[i] != ':') return false;
	i++;
	if(i < spec.size() && spec[i] == '0') { zero = true; i++; }
	while(i < spec.size() && isdigit((unsigned char)spec[i])) { width = width * 10 + (spec[i] - '0'); if(width > INT_MAX) return false; i++; }
	if(i < spec.size()) { if(!strchr("bcdioXx", spec[i])) return false; conv = spec[i]; i++; }
	return i == spec.size();
}

static std::string ref_fmt(const std::string &f, const std::vector<FArg> &args, bool &uses_undocumented) {
	std::string out; size_t cur = 0;
	for(size_t i = 0; i < f.size();) {
		if(f[i] != '{') { out.push_back(f[i++]); continue; }
		if(i + 1 < f.size() && f[i + 1] == '{') { out.push_back('{'); i += 2; continue; }
		size_t close = f.find('}', i);
		if(close == std::string::npos) { out += f.substr(i); break; } // unclosed: echoed as is
		std::string spec = f.substr(i + 1, close - i - 1), whole = f.substr(i, close - i + 1);
		bool has_pos, zero; size_t pos; long long width; char conv;
		size_t argi = cur++;
		if(!ref_spec(spec, has_pos, pos, zero, width, conv)) { out += whole; i = close + 1; continue; }
		if(has_pos) argi = pos;
		if(argi >= args.size()) { out += whole; i = close + 1; continue; }
		const FArg &a = args[argi];
		if(a.kind == 4) { out += a.s; if(width || zero || conv) uses_undocumented = true; }
		else if(a.kind == 3) {
			if(conv == 'c') out.push_back(a.c);
			else { int radix = conv == 'x' || conv == 'X' ? 16 : conv == 'o' ? 8 : conv == 'b' ? 2 : 10; out += render_int(a.c < 0 ? -(long long)a.c : a.c, a.c < 0, radix, conv == 'X', (int)width, zero); }
		} else {
			if(conv == 'c') uses_undocumented = true; // 'c' on a non-char argument is not defined by the grammar comment
			int radix = conv == 'x' || conv == 'X' ? 16 : conv == 'o' ? 8 : conv == 'b' ? 2 : 10;
			bool neg = (a.kind == 0 || a.kind == 1) && a.i < 0;
			unsigned long long mag = (a.kind == 2 || a.kind == 5) ? a.u : neg ? 0ull - (unsigned long long)a.i : (unsigned long long)a.i;
			out += render_int(mag, neg, radix, conv == 'X', (int)width, zero);
		}
		i = close + 1;
	}
	return out;
}

template<typename... Ts>
static std::string frg_fmt(const std::string &f, Ts... ts) {
	GuardedBuf g(f.data(), f.size());
	std::string out;
	frg::output_to(out) << frg::fmt(frg::string_view(g.data(), f.size()), ts...);
	// the same through a container that only has push_back (container_logger then appends character by character)
	std::vector<char> out2;
	frg::output_to(out2) << frg::fmt(frg::string_view(g.data(), f.size()), ts...);
	if(std::string(out2.begin(), out2.end()) != out) violation("C19:fmt:container-paths-differ", "fmt(\"" + f + "\") rendered into a std::string gives \"" + out.substr(0, 100) + "\", into a std::vector<char> \"" + std::string(out2.begin(), out2.end()).substr(0, 100) + "\"");
	count("fmt_specs_rendered_into_two_container_kinds");
	return out;
}

static void fmt_case(const std::string &f, Rng &r) {
	// fixed argument tuple: (int, long, unsigned, char, const char*, unsigned long long)
	int a0; long a1; unsigned a2; char a3; unsigned long long a5;
	switch(r.below(5)) { case 0: a0 = 0; break; case 1: a0 = -1; break; case 2: a0 = INT_MIN; break; case 3: a0 = INT_MAX; break; default: a0 = (int)r.next(); }
	switch(r.below(4)) { case 0: a1 = LONG_MIN; break; case 1: a1 = -42; break; case 2: a1 = LONG_MAX; break; default: a1 = (long)r.next() >> r.below(60); }
	a2 = r.chance(1, 3) ? UINT_MAX : (unsigned)r.next();
	a3 = (char)('!' + r.below(90));
	a5 = r.chance(1, 3) ? ~0ull : r.next();
	std::string s4; for(size_t q = r.below(12); q; q--) s4.push_back('a' + r.below(26));
	std::string z4 = s4; z4.push_back('\0');
	GuardedBuf g4(z4.data(), z4.size());
	std::vector<FArg> args = {{0, a0, 0, 0, ""}, {1, a1, 0, 0, ""}, {2, 0, a2, 0, ""}, {3, 0, 0, a3, ""}, {4, 0, 0, 0, s4}, {5, 0, a5, 0, ""}};
	bool undoc = false;
	std::string exp = ref_fmt(f, args, undoc);
	if(undoc) { count("fmt_cases_outside_documented_grammar"); return; }
	std::string got;
	bool ok = true; std::string panic;
	try { got = frg_fmt(f, a0, a1, a2, a3, (const char *)g4.data(), a5); } catch(const PanicStop &p) { ok = false; panic = p.msg; }
	count("fmt_specs_compared");
	std::string cls;
	{ size_t o = f.find('{'); size_t c = f.find('}', o == std::string::npos ? 0 : o); std::string spec = (o != std::string::npos && c != std::string::npos) ? f.substr(o + 1, c - o - 1) : "";
	  bool hp, z; size_t ps; long long w; char cv; bool wf = ref_spec(spec, hp, ps, z, w, cv);
	  cls = !wf ? "malformed" : strf("%s%s%s%s", hp ? "pos" : "seq", z ? ":zero" : "", w ? ":width" : "", cv ? (std::string(":") + cv).c_str() : ""); }
	if(!ok) { case_detail("fmt \"%s\"", f.c_str()); violation("C19:fmt:assert:" + cls, strf("fmt(\"%s\") stopped at a library assertion (%s); the documented grammar yields \"%s\"", f.c_str(), panic.c_str(), exp.substr(0, 100).c_str())); return; }
	if(got != exp) { case_detail("fmt \"%s\"", f.c_str()); violation("C19:fmt:" + cls, strf("fmt(\"%s\", %d, %ld, %u, '%c', \"%s\", %llu) rendered \"%s\", the documented grammar yields \"%s\"", f.c_str(), a0, a1, a2, a3, s4.c_str(), a5, got.substr(0, 120).c_str(), exp.substr(0, 120).c_str())); }
}

static void fmt_sweep() {
	if(!want_mode("fmt")) return;
	Rng r(derive_seed("fmt"));
	long long idx = 0;
	// grid: position x zero x width x conversion, for each argument index
	for(const char *pos : {"", "0", "1", "2", "3", "5", "6", "9", "00", "01"}) for(const char *zero : {"", "0"}) for(const char *w : {"", "1", "2", "5", "12", "40"}) for(const char *cv : {"", "b", "c", "o", "d", "i", "x", "X", "q", "xx", "-"})
		for(int colon = 0; colon < 2; colon++) {
			std::string spec = std::string(pos) + (colon ? std::string(":") + zero + w + cv : "");
			if(!colon && (zero[0] || w[0] || cv[0])) continue;
			long long my = idx++;
			if(my % opt.nshards != opt.shard || !want_case(my)) continue;
			begin_case("fmt", my);
			for(int rep = 0; rep < 3; rep++) {
				fmt_case("{" + spec + "}", r);
				fmt_case("a{" + spec + "}b{" + spec + "}", r);
				fmt_case("{}{" + spec + "}{}{}{}{}{}", r);
			}
			note_distinct(hash_str("fmtspec:" + spec));
		}
	// malformed / brace edge cases
	for(const char *f : {"{", "}", "{{", "}}", "{{}", "{}}", "{ }", "{:", "{:}", "{0:}", "{:08", "{x}", "{-1}", "{1:2:3}", "text {} {", "{{{}}}", "{:99999999999999999999x}", "{99999999999999999999}", "{6}", "{:c}{:c}{:c}{:c}", "", "no spec", "{:0}", "{:00}", "{:010d}", "{0}{0}{0}"}) {
		long long my = idx++;
		if(my % opt.nshards != opt.shard || !want_case(my)) continue;
		begin_case("fmt", my); for(int rep = 0; rep < 3; rep++) fmt_case(f, r); note_distinct(hash_str(std::string("fmtedge:") + f));
	}
	// random spec strings over the grammar alphabet
	uint64_t n = scaled(3000, 100000);
	for(uint64_t i = 0; i < n; i++) {
		begin_case("fmt-rand", i);
		std::string f;
		for(size_t k = 1 + r.below(4); k; k--) {
			if(r.chance(1, 2)) f += r.pick(std::vector<std::string>{"x", " ", "=", "{{", "ab"});
			f += "{";
			for(size_t q = r.below(6); q; q--) f.push_back("0123456789:::bcdioXx}{q"[r.below(23)]);
			if(r.chance(5, 6)) f += "}";
		}
		fmt_case(f, r);
		note_distinct(hash_str("fmtrand:" + f));
	}
	sample("fmt: \"{1:08x}\" / \"a{:5d}b{:5d}\" / \"{}{3:c}{}...\" over (int, long, unsigned, char, const char*, unsigned long long) with boundary values, vs an interpreter of ([0-9]+)?(:0?[0-9]*[bcdioXx]?)? (sign precedes zero fill, malformed/out-of-range specs echoed)");
}

// ------------------------------------------------------------------ (c) stack_buffer_logger chunking
struct ChunkRec { std::vector<std::string> *chunks; size_t *limit_violations; size_t limit; int *finalized;
	void operator()(const char *msg) { size_t n = strlen(msg); if(n >= limit) (*limit_violations)++; chunks->push_back(std::string(msg, n)); }
	void finalize(bool done) { *finalized += done ? 1 : 100; } };

// the optional members of a logger sink: the logger calls begin() / finalize(done) only where the sink has them
struct ChunkRecPlain { std::vector<std::string> *chunks; size_t *limit_violations; size_t limit; int *finalized;
	void operator()(const char *msg) { size_t n = strlen(msg); if(n >= limit) (*limit_violations)++; chunks->push_back(std::string(msg, n)); *finalized = 1; } };
struct ChunkRecBegin { std::vector<std::string> *chunks; size_t *limit_violations; size_t limit; int *finalized; int begun = 0;
	void begin() { begun++; if(!chunks->empty()) *finalized += 1000; } // before the first chunk, once
	void operator()(const char *msg) { size_t n = strlen(msg); if(n >= limit) (*limit_violations)++; if(begun != 1) *finalized += 1000; chunks->push_back(std::string(msg, n)); }
	void finalize(bool done) { *finalized += done ? 1 : 100; } };

template<size_t Limit, typename Rec = ChunkRec>
static void logger_case(Rng &r, size_t len, int style) {
	std::vector<std::string> chunks; size_t lv = 0; int fin = 0;
	std::string msg;
	for(size_t i = 0; i < len; i++) msg.push_back((char)('a' + r.below(26)));
	{
		frg::stack_buffer_logger<Rec, Limit> logger(Rec{&chunks, &lv, Limit, &fin});
		auto item = logger();
		if(style == 0) { for(char ch : msg) item << frg::char_fmt(ch); } // (a plain char streams as its numeric value)
		else if(style == 1) { item << msg.c_str(); }
		else { size_t i = 0; while(i < msg.size()) { size_t k = 1 + r.below(2 * Limit); std::string part = msg.substr(i, k); if(r.chance(1, 2)) item << part.c_str(); else for(char ch : part) item.append(ch); i += part.size(); } }
		item << frg::endlog;
	}
	std::string cat; for(auto &c : chunks) cat += c;
	count("logger_messages");
	if(cat != msg) violation(strf("C19:logger:lost-or-reordered:limit=%zu", Limit), strf("stack_buffer_logger<%zu>: message of %zu chars arrived as %zu chunks whose concatenation differs (first difference at %zu)", Limit, len, chunks.size(), (size_t)(std::mismatch(cat.begin(), cat.end(), msg.begin(), msg.end()).first - cat.begin())));
	if(lv) violation(strf("C19:logger:chunk-too-long:limit=%zu", Limit), strf("stack_buffer_logger<%zu> emitted a chunk of length >= Limit", Limit));
	if(std::is_same_v<Rec, ChunkRecPlain> && chunks.empty()) fin = 1; // (a sink without finalize() and an empty message: nothing to observe)
	if(fin != 1) violation(strf("C19:logger:finalize:limit=%zu", Limit), fin >= 1000 ? "begin() was not called exactly once before the first chunk" : "finalize(done) was not called exactly once with done=true after endlog");
}

static void logger_sweep() {
	if(!want_mode("logger")) return;
	Rng r(derive_seed("logger"));
	long long idx = 0;
	auto run = [&]<size_t L>(std::integral_constant<size_t, L>) {
		for(size_t len = 0; len <= 3 * L + 2; len++) for(int style = 0; style < 3; style++) {
			begin_case("logger", idx++);
			guarded("C19", [&] { switch((len + style) % 3) { case 0: logger_case<L>(r, len, style); break; case 1: logger_case<L, ChunkRecPlain>(r, len, style); break; default: logger_case<L, ChunkRecBegin>(r, len, style); break; } });
			note_distinct(mix(hash_str("logger"), L * 100000 + len * 3 + style));
		}
	};
	run(std::integral_constant<size_t, 2>{}); run(std::integral_constant<size_t, 3>{}); run(std::integral_constant<size_t, 8>{}); run(std::integral_constant<size_t, 128>{});
	// numbers through the logger (format() writes digit by digit)
	{ std::vector<std::string> chunks; size_t lv = 0; int fin = 0; frg::stack_buffer_logger<ChunkRec, 8> lg(ChunkRec{&chunks, &lv, 8, &fin});
	  { auto it = lg(); it << "value=" << 1234567890123ll << " hex=" << frg::hex_fmt<unsigned>(0xdeadbeefu) << frg::endlog; }
	  std::string cat; for(auto &c : chunks) cat += c;
	  if(cat != "value=1234567890123 hex=deadbeef") violation("C19:logger:lost-or-reordered:formatted", "formatted values through stack_buffer_logger<8>: got \"" + cat + "\""); }
	sample("logger: Limit in {2,3,8,128}, message lengths 0..3*Limit+2, fed char-wise / as one C string / in random pieces, then endlog; chunks concatenated and compared");
}

int main(int argc, char **argv) {
	parse_args(argc, argv, "c19_format");
	rec.rule = "printf: a case is one directive (or one multi-directive / positional format) with concrete argument slots, output compared byte for byte with glibc vsnprintf in the C locale; "
		"distinct = directive feature vector (conversion, flag set, width class, precision class, length modifier, value class); fmt: distinct spec strings; logger: distinct (Limit, length, feeding style)";
	printf_grid();
	printf_positional_and_multi();
	printf_binary_info();
	if(opt.shard == 0 || opt.nshards == 1) logger_sweep();
	fmt_sweep();
	rec.counters["printf_mismatches"] = g_mismatches;
	return finish();
}
