// E5 (thorough tier of C20): libFuzzer target over the four parsers with the same oracles as c20_parsers.cpp
// (ASan+UBSan, exact-size input buffers, exact-size variadic slots from the independent tokenizer, frg_panic is an accepted stop).
// First input byte selects the parser, the rest is the input.
#include "printf_common.hpp"
#include <frg/cmdline.hpp>
#include <frg/array.hpp>

using namespace verif;
using namespace pf;

static GuardedBuf *g_narrow, *g_wide;

static void fuzz_printf(const std::string &f) {
	for(char ch : f) if(!ch) return; // format strings are C strings
	Parsed P = tokenize(f);
	bool huge = false; for(auto &d : P.dirs) if(d.width > 20000 || d.prec > 20000) huge = true; // then the agent expands at most 1000 pad characters
	if(P.pos_conflict) return;
	if(P.any_positional && !P.pos_sizes_uniform) return; // known finding, demonstrated elsewhere
	bool mixed = (P.any_positional && P.any_sequential) || P.weird;
	bool any_ptr = false; for(auto c : P.slots) if(c == S_STR || c == S_WSTR) any_ptr = true;
	// Mixed positional/sequential formats (undefined in POSIX, but still input): frigg pops the slots in an order that depends on
	// which style comes first, so any slot may end up as a string pointer or as a '*' width. All slots then carry the same value
	// (a valid wide/narrow string pointer, or a small integer when no string is printed) and the agent clamps the padding
	// (a pointer read as a width would otherwise mean 2^31 pad characters: output volume, not parsing).
	std::vector<uint64_t> slots;
	uint64_t x = hash_str(f);
	for(auto c : P.slots) {
		x = mix(x, 1);
		if(mixed) { slots.push_back(any_ptr ? (uint64_t)g_wide->data() : x % 30); continue; }
		switch(c) { case S_INT: slots.push_back(x % 30); break; case S_CHAR: slots.push_back('a' + x % 26); break; case S_STR: slots.push_back((uint64_t)g_narrow->data()); break; case S_WSTR: slots.push_back((uint64_t)g_wide->data()); break; case S_PTR: slots.push_back(x); break; }
	}
	if(mixed) huge = true;
	// a '*' in a format that also has n$ directives takes its width from wherever frigg's argument cursor stands - possibly a
	// pointer-valued slot, i.e. up to 2^31 pad characters (12 s per input, found as libFuzzer "slow units"): clamp, as above
	if(P.any_positional && f.find('*') != std::string::npos) huge = true;
	std::string z = f; z.push_back('\0');
	GuardedBuf gf(z.data(), z.size());
	run_frigg(gf.data(), slots, huge, hash_str(f) & 1);
}

static void fuzz_fmt(const std::string &f, int which) {
	{ size_t run = 0; for(char ch : f) { run = (ch >= '0' && ch <= '9') ? run + 1 : 0; if(run > 5) return; } } // widths above 99999: output volume, not parsing
	GuardedBuf g(f.data(), f.size());
	frg::string_view v(g.data(), f.size());
	RecSink sink; sink.limit = 1 << 16;
	struct S { RecSink *s; void append(char c) { s->append(c); } void append(const char *p) { s->append(p); } } out{&sink};
	try {
		if(which == 0) frg::format(frg::fmt(v), out);
		else if(which == 1) frg::format(frg::fmt(v, 42), out);
		else frg::format(frg::fmt(v, -7, "str", 'c', 99ul), out);
	} catch(const PanicStop &) { }
}

static void fuzz_cmdline(const std::string &line) {
	GuardedBuf g(line.data(), line.size());
	frg::string_view v(g.data(), line.size());
	bool *fa = (bool *)malloc(1), *fb = (bool *)malloc(1); *fa = *fb = false;
	auto *sv = (frg::string_view *)malloc(sizeof(frg::string_view)); new (sv) frg::string_view();
	int8_t *i8 = (int8_t *)malloc(1); uint64_t *u64 = (uint64_t *)malloc(8); int32_t *i32 = (int32_t *)malloc(4); uint16_t *u16 = (uint16_t *)malloc(2);
	try {
		frg::array args = {frg::option{"a", frg::store_true(*fa)}, frg::option{"b", frg::store_false(*fb)}, frg::option{"s", frg::as_string_view(*sv)}, frg::option{"", frg::as_string_view(*sv)},
			frg::option{"n", frg::as_number(*i8)}, frg::option{"u", frg::as_number(*u64)}, frg::option{"i", frg::as_number(*i32)}, frg::option{"h", frg::as_number(*u16)}, frg::option{"a", frg::as_number(*i32)}};
		frg::parse_arguments(v, args);
		if(sv->size() && (sv->data() < g.data() || sv->data() + sv->size() > g.data() + line.size())) __builtin_trap(); // value view outside the input
	} catch(const PanicStop &) { }
	free(fa); free(fb); free(sv); free(i8); free(u64); free(i32); free(u16);
}

template<typename T> static void tn(frg::string_view v) { try { auto r = v.to_number<T>(); (void)r; } catch(const PanicStop &) { } }
static void fuzz_to_number(const std::string &s) {
	GuardedBuf g(s.data(), s.size());
	frg::string_view v(g.data(), s.size());
	tn<int8_t>(v); tn<uint8_t>(v); tn<int16_t>(v); tn<uint16_t>(v); tn<int32_t>(v); tn<uint32_t>(v); tn<int64_t>(v); tn<uint64_t>(v);
}

extern "C" int LLVMFuzzerInitialize(int *, char ***) {
	static std::string s = std::string("narrow string") + '\0';
	static std::wstring w = std::wstring(L"wide string!") + L'\0';
	g_narrow = new GuardedBuf(s.data(), s.size());
	g_wide = new GuardedBuf(w.data(), w.size() * sizeof(wchar_t));
	return 0;
}

extern "C" int LLVMFuzzerTestOneInput(const uint8_t *data, size_t size) {
	if(size < 1) return 0;
	std::string in((const char *)data + 1, size - 1);
	switch(data[0] % 6) {
	case 0: case 1: fuzz_printf(in); break;
	case 2: fuzz_fmt(in, data[0] / 6 % 3); break;
	case 3: case 4: fuzz_cmdline(in); break;
	default: fuzz_to_number(in); break;
	}
	return 0;
}
