// C06: frg::rbtree / rbtree_order vs a reference order, checked through the public navigation API after every operation.
#include "common/verif.hpp"
#include <frg/rbtree.hpp>
#include <optional>
#include <functional>
#include <vector>
#include <algorithm>
#include <numeric>
#include <cmath>

using namespace verif;

struct Node {
	int key = 0;
	int id = 0;
	size_t agg_size = 0; // maintained by SizeAgg (subtree size)
	frg::rbtree_hook hook;
	friend bool operator<(const Node &a, const Node &b) { return a.key < b.key; }
	friend bool operator>(const Node &a, const Node &b) { return a.key > b.key; }
};
// The comparator carries state (a direction): the tree has to keep the comparator object it was given (or its default state)
// and order by it. State that is neither +1 nor -1 means the tree lost or never initialised its comparator.
static uint64_t g_less_bad_state = 0;
static int g_dir = 1; // direction of the tree under test (the reference sequence follows it)
struct Less {
	int dir = 1;
	Less() = default;
	explicit Less(int d) : dir(d) {}
	int operator()(const Node &a, const Node &b) const { if(dir != 1 && dir != -1) g_less_bad_state++; return (dir < 0 ? a.key > b.key : a.key < b.key) ? 4 : 0; } // (truthy, but not 1: a comparator is used by its truth value)
};
template<typename T> static constexpr bool takes_comparator = std::is_constructible_v<T, Less>;
// Other comparator *types* a user instantiates the tree with: the transparent standard functors (callable with anything that has
// < or >, pointers included), a generic functor, a plain function pointer (a default-constructed one would be null: always passed).
struct GenericLess { template<typename A, typename B> bool operator()(const A &a, const B &b) const { return a < b; } };
static bool fn_less(const Node &a, const Node &b) { return a.key < b.key; }
using FnLess = bool (*)(const Node &, const Node &);
using TransparentTree = frg::rbtree<Node, &Node::hook, std::less<>>;
using TransparentGreaterTree = frg::rbtree<Node, &Node::hook, std::greater<>>;
using GenericTree = frg::rbtree<Node, &Node::hook, GenericLess>;
using FnTree = frg::rbtree<Node, &Node::hook, FnLess>;
template<typename T> static constexpr int fixed_dir = std::is_same_v<T, TransparentGreaterTree> ? -1 : 1;

struct SizeAgg;
using Tree = frg::rbtree<Node, &Node::hook, Less, SizeAgg>;
using PlainTree = frg::rbtree<Node, &Node::hook, Less>;
struct SizeAggO;
using OrderTree = frg::rbtree_order<Node, &Node::hook, SizeAggO>;

struct SizeAgg {
	static bool aggregate(Node *n) {
		size_t s = 1;
		if(auto l = Tree::get_left(n)) s += l->agg_size;
		if(auto r = Tree::get_right(n)) s += r->agg_size;
		if(s == n->agg_size) return false;
		n->agg_size = s; return true;
	}
	template<typename S> static bool check_invariant(S &, Node *) { return true; }
};
struct SizeAggO {
	static bool aggregate(Node *n) {
		size_t s = 1;
		if(auto l = OrderTree::get_left(n)) s += l->agg_size;
		if(auto r = OrderTree::get_right(n)) s += r->agg_size;
		if(s == n->agg_size) return false;
		n->agg_size = s; return true;
	}
	template<typename S> static bool check_invariant(S &, Node *) { return true; }
};

static bool g_bad = false;
static std::string g_trace;
static void fail(const std::string &kind, const std::string &msg) {
	if(g_bad) return; g_bad = true;
	case_detail("%s", g_trace.substr(0, 3500).c_str());
	violation("C06:model:rbtree:" + kind, msg + " after [" + g_trace.substr(0, 600) + "]");
}

static uint64_t g_shape_hash;

// Full structural check through the public API. `ref` = expected in-order sequence.
template<typename T, bool HasAgg>
static void full_check(T &tree, const std::vector<Node *> &ref) {
	if(g_bad) return;
	size_t n = ref.size();
	Node *root = tree.get_root();
	if((root == nullptr) != (n == 0)) return fail("root", "get_root() null-ness does not match emptiness");
	if(!n) { if(tree.first()) fail("first", "first() non-null on an empty tree"); return; }
	if(T::get_parent(root)) return fail("parent-links", "root has a parent");
	// walk 1: first()/successor
	size_t k = 0;
	Node *prev = nullptr;
	for(Node *x = tree.first(); x; x = T::successor(x), k++) {
		if(k >= n) return fail("successor-walk", "successor walk visits more elements than contained");
		if(x != ref[k]) return fail("successor-walk", strf("successor walk position %zu is node %d(key %d), expected node %d(key %d)", k, x->id, x->key, ref[k]->id, ref[k]->key));
		if(T::predecessor(x) != prev) return fail("pred-succ-inverse", strf("predecessor(node %d) is not the node whose successor it is", x->id));
		prev = x;
	}
	if(k != n) return fail("successor-walk", strf("successor walk visits %zu of %zu elements", k, n));
	// walk 2: recursive in-order over left/right links (+ parent links, colours, black heights, aggregate)
	std::vector<Node *> inorder;
	bool ok = true; std::string why;
	uint64_t shape = 0;
	std::function<int(Node *, int)> rec = [&](Node *x, int depth) -> int { // returns black height, -1 on failure
		if(!x) return 1;
		if(!ok) return -1;
		if(depth > 200) { ok = false; why = "tree deeper than 200 (cycle?)"; return -1; }
		Node *l = T::get_left(x), *r = T::get_right(x);
		if(l && T::get_parent(l) != x) { ok = false; why = strf("left child of node %d does not point back to it", x->id); return -1; }
		if(r && T::get_parent(r) != x) { ok = false; why = strf("right child of node %d does not point back to it", x->id); return -1; }
		auto col = x->hook.color;
		if(col != frg::_redblack::color_type::red && col != frg::_redblack::color_type::black) { ok = false; why = strf("node %d in the tree has no colour", x->id); return -1; }
		bool red = col == frg::_redblack::color_type::red;
		if(red && ((l && l->hook.color == frg::_redblack::color_type::red) || (r && r->hook.color == frg::_redblack::color_type::red))) { ok = false; why = strf("red node %d has a red child", x->id); return -1; }
		shape = mix(shape, (red ? 1 : 2) + (l ? 4 : 0) + (r ? 8 : 0));
		int bl = rec(l, depth + 1);
		inorder.push_back(x);
		int br = rec(r, depth + 1);
		if(!ok) return -1;
		if(bl != br) { ok = false; why = strf("black heights differ below node %d (%d vs %d)", x->id, bl, br); return -1; }
		if constexpr (HasAgg) {
			size_t s = 1 + (l ? l->agg_size : 0) + (r ? r->agg_size : 0);
			if(x->agg_size != s) { ok = false; why = strf("aggregate of node %d is stale (%zu, children say %zu)", x->id, x->agg_size, s); return -1; }
		}
		return bl + (red ? 0 : 1);
	};
	if(root->hook.color != frg::_redblack::color_type::black) return fail("colour", "root is not black");
	rec(root, 0);
	if(!ok) return fail(why.find("aggregate") != std::string::npos ? "aggregate" : why.find("point back") != std::string::npos ? "parent-links" : "colour", why);
	if(inorder != ref) return fail("inorder-walk", "in-order walk over left/right links differs from the contained elements in comparator/insertion order");
	// height bound
	int height = 0;
	std::function<int(Node *)> hgt = [&](Node *x) -> int { return x ? 1 + std::max(hgt(T::get_left(x)), hgt(T::get_right(x))) : 0; };
	height = hgt(root);
	if(height > 2 * std::log2((double)n + 1) + 1e-9) return fail("height", strf("height %d exceeds 2*log2(n+1) for n=%zu", height, n));
	g_shape_hash = shape;
}

static void check_removed(Node *x) {
	if(g_bad) return;
	auto &h = x->hook;
	if(h.parent || h.left || h.right || h.predecessor || h.successor)
		fail("hook-reset", strf("removed node %d keeps a link (parent=%p left=%p right=%p pred=%p succ=%p)", x->id, h.parent, h.left, h.right, h.predecessor, h.successor));
}

// reference insert: after all elements with key <= new key (equal keys in insertion order)
static void ref_insert(std::vector<Node *> &ref, Node *x) {
	size_t pos = 0;
	while(pos < ref.size() && !(g_dir < 0 ? x->key > ref[pos]->key : x->key < ref[pos]->key)) pos++;
	ref.insert(ref.begin() + pos, x);
}
static void ref_remove(std::vector<Node *> &ref, Node *x) { ref.erase(std::find(ref.begin(), ref.end(), x)); }

// ------------------------------------------------------------------ exhaustive: all insertion orders x all removal orders
template<typename T, bool HasAgg>
static void exhaustive_perm(const char *mode, int n, int keyvariant, bool reinsertion) {
	if(!want_mode(mode)) return;
	std::vector<int> ins(n); std::iota(ins.begin(), ins.end(), 0);
	long long idx = 0;
	std::vector<Node> pool(n);
	do {
		std::vector<int> rem(n); std::iota(rem.begin(), rem.end(), 0);
		do {
			long long my = idx++;
			if(my % opt.nshards != opt.shard) continue;
			if(!want_case(my)) continue;
			begin_case(mode, my);
			g_bad = false; g_trace.clear();
			for(int i = 0; i < n; i++) { pool[i].id = i; pool[i].key = keyvariant == 0 ? i : keyvariant == 1 ? i / 2 : keyvariant == 2 ? 0 : (i % 2); pool[i].agg_size = 0; new (&pool[i].hook) frg::rbtree_hook(); }
			g_dir = (takes_comparator<T> && my % 3 == 2) ? -1 : 1; g_less_bad_state = 0;
			bool completed = guarded("C06", [&] {
				std::optional<T> tree_box;
				if constexpr (takes_comparator<T>) { if(g_dir < 0) tree_box.emplace(Less(-1)); else tree_box.emplace(); }
				else if constexpr (std::is_constructible_v<T, FnLess>) tree_box.emplace(&fn_less);
				else tree_box.emplace();
				T &tree = *tree_box;
				std::vector<Node *> ref;
				for(int i = 0; i < n && !g_bad; i++) {
					Node *x = &pool[ins[i]];
					g_trace += strf("ins(%d:k%d) ", x->id, x->key);
					tree.insert(x); ref_insert(ref, x);
					full_check<T, HasAgg>(tree, ref);
				}
				note_distinct(mix(g_shape_hash, n));
				for(int i = 0; i < n && !g_bad; i++) {
					Node *x = &pool[rem[i]];
					g_trace += strf("rem(%d) ", x->id);
					tree.remove(x); ref_remove(ref, x);
					check_removed(x);
					full_check<T, HasAgg>(tree, ref);
					if(reinsertion && i == n / 2 && !g_bad) {
						// re-insert everything removed so far (removed hooks must be reusable), then continue removing
						for(int j = 0; j <= i; j++) { Node *y = &pool[rem[j]]; g_trace += strf("reins(%d) ", y->id); tree.insert(y); ref_insert(ref, y); full_check<T, HasAgg>(tree, ref); }
						for(int j = 0; j <= i; j++) { Node *y = &pool[rem[j]]; g_trace += strf("rem(%d) ", y->id); tree.remove(y); ref_remove(ref, y); check_removed(y); full_check<T, HasAgg>(tree, ref); }
					}
				}
			});
			if(!completed) { for(auto &p : pool) new (&p.hook) frg::rbtree_hook(); }
			if(g_less_bad_state) { fail("comparator-state", strf("the tree called its comparator %llu times with a state that is neither the one it was constructed with nor the default", (unsigned long long)g_less_bad_state)); g_less_bad_state = 0; }
			g_dir = 1;
			count("exhaustive_histories");
		} while(std::next_permutation(rem.begin(), rem.end()));
	} while(std::next_permutation(ins.begin(), ins.end()));
	rec.notes[mode] = strf("all %d! insertion orders x all %d! removal orders, key variant %d%s", n, n, keyvariant, reinsertion ? ", with re-insertion of the removed half" : "");
}

// ------------------------------------------------------------------ rbtree_order: every insertion position
static void exhaustive_order(const char *mode, int n) {
	if(!want_mode(mode)) return;
	uint64_t total = 1; for(int i = 1; i <= n; i++) total *= i; // positions: i-th insert has i choices (0..i-1 => before element, i-1 => last/null)
	std::vector<Node> pool(n);
	for(uint64_t x = opt.shard; x < total; x += opt.nshards) {
		if(!want_case(x)) continue;
		// all removal orders only for the first few; otherwise one derived removal order
		std::vector<int> rem(n); std::iota(rem.begin(), rem.end(), 0);
		int nrem = (n <= 5) ? 120 : 6;
		for(int ro = 0; ro < nrem; ro++) {
			begin_case(mode, x);
			g_bad = false; g_trace.clear();
			for(int i = 0; i < n; i++) { pool[i].id = i; pool[i].key = 0; pool[i].agg_size = 0; new (&pool[i].hook) frg::rbtree_hook(); }
			bool completed = guarded("C06", [&] {
				OrderTree tree;
				std::vector<Node *> ref;
				uint64_t y = x;
				for(int i = 0; i < n && !g_bad; i++) {
					size_t pos = y % (i + 1); y /= (i + 1);
					Node *before = pos < ref.size() ? ref[pos] : nullptr;
					g_trace += strf("ins(%d before %d) ", i, before ? before->id : -1);
					tree.insert(before, &pool[i]);
					ref.insert(ref.begin() + pos, &pool[i]);
					full_check<OrderTree, true>(tree, ref);
				}
				note_distinct(mix(g_shape_hash, 1000 + n));
				for(int i = 0; i < n && !g_bad; i++) {
					Node *r = &pool[rem[i]];
					g_trace += strf("rem(%d) ", r->id);
					tree.remove(r); ref_remove(ref, r); check_removed(r);
					full_check<OrderTree, true>(tree, ref);
				}
			});
			if(!completed) { for(auto &p : pool) new (&p.hook) frg::rbtree_hook(); }
			count("order_histories");
			if(!std::next_permutation(rem.begin(), rem.end())) break;
		}
	}
	rec.notes[mode] = strf("rbtree_order: all %llu sequences of insertion positions for n=%d, followed by removal orders", (unsigned long long)total, n);
}

// ------------------------------------------------------------------ random large trees
template<typename T, bool HasAgg>
static void random_histories(const char *mode, uint64_t ncases, size_t maxn, unsigned nops, unsigned check_every) {
	if(!want_mode(mode)) return;
	Rng sr(derive_seed(mode));
	for(uint64_t c = 0; c < ncases; c++) {
		uint64_t cs = sr.next();
		if(!want_case(c)) continue;
		begin_case(mode, c);
		g_bad = false; g_trace.clear();
		Rng r(cs);
		size_t N = 1 + r.below(maxn);
		int stream = r.below(5);
		std::vector<Node> pool(N);
		std::vector<Node *> out, ref;
		for(size_t i = 0; i < N; i++) {
			pool[i].id = (int)i;
			pool[i].key = stream == 0 ? (int)i : stream == 1 ? (int)(N - i) : stream == 2 ? (int)std::min(i, N - i) : stream == 3 ? (int)r.below(4) : (int)r.below(N);
			out.push_back(&pool[i]);
		}
		case_detail("N=%zu stream=%d seed=%llu", N, stream, (unsigned long long)cs);
		g_dir = takes_comparator<T> ? (c % 3 == 2 ? -1 : 1) : fixed_dir<T>; g_less_bad_state = 0;
		bool completed = guarded("C06", [&] {
			std::optional<T> tree_box;
			if constexpr (takes_comparator<T>) { if(g_dir < 0) tree_box.emplace(Less(-1)); else tree_box.emplace(); }
			else if constexpr (std::is_constructible_v<T, FnLess>) tree_box.emplace(&fn_less);
			else tree_box.emplace();
			T &tree = *tree_box;
			int phase = 0;
			for(unsigned i = 0; i < nops && !g_bad; i++) {
				if(i % 97 == 0) phase = r.below(3);
				bool ins = phase == 0 ? r.chance(3, 4) : phase == 1 ? r.chance(1, 4) : r.chance(1, 2);
				if(ref.empty()) ins = true;
				if(out.empty()) ins = false;
				if(ins) {
					size_t k = (stream <= 2) ? 0 : r.below(out.size()); // ordered streams insert in pool order
					if(stream <= 2) { k = 0; }
					Node *x = out[k]; out.erase(out.begin() + k);
					if(g_trace.size() < 3000) g_trace += strf("ins(%d:k%d) ", x->id, x->key);
					tree.insert(x); ref_insert(ref, x);
				} else {
					// removal target: root, first, last, random
					Node *x;
					switch(r.below(6)) { case 0: x = tree.get_root(); break; case 1: x = ref.front(); break; case 2: x = ref.back(); break; default: x = ref[r.below(ref.size())]; }
					if(g_trace.size() < 3000) g_trace += strf("rem(%d) ", x->id);
					tree.remove(x); ref_remove(ref, x); check_removed(x);
					out.push_back(x);
				}
				if(i % check_every == 0 || ref.size() < 40) full_check<T, HasAgg>(tree, ref);
			}
			full_check<T, HasAgg>(tree, ref);
			note_distinct(mix(g_shape_hash, cs));
			if(ref.size() > rec.counters["max_tree_size"]) rec.counters["max_tree_size"] = ref.size();
			// drain
			while(!ref.empty() && !g_bad) { Node *x = ref[r.below(ref.size())]; tree.remove(x); ref_remove(ref, x); check_removed(x); if(ref.size() % check_every == 0) full_check<T, HasAgg>(tree, ref); }
		});
		(void)completed;
		if(g_less_bad_state) { fail("comparator-state", strf("the tree called its comparator %llu times with a state that is neither the one it was constructed with nor the default", (unsigned long long)g_less_bad_state)); g_less_bad_state = 0; }
		if(g_dir < 0 && takes_comparator<T>) count("histories_with_a_comparator_passed_to_the_constructor");
		if(!takes_comparator<T> && !std::is_same_v<T, OrderTree>) count("histories_with_a_standard_transparent_generic_or_function_pointer_comparator");
		g_dir = 1;
		count("random_histories");
	}
}

int main(int argc, char **argv) {
	parse_args(argc, argv, "c06_rbtree");
	rec.rule = "a case is one insert/remove history; after every operation the tree is walked via first()/successor and recursively via left/right links and compared with the reference order "
		"(plus pred/succ inverse, parent links, red-black colouring, black heights, height bound, subtree-size aggregate, reset hooks); distinct = hash of the pre-removal tree shape+colouring";
	bool t = opt.thorough();
	exhaustive_perm<Tree, true>("exh:distinct", t ? 7 : 6, 0, false);
	exhaustive_perm<Tree, true>("exh:pairs", t ? 6 : 5, 1, false);
	exhaustive_perm<Tree, true>("exh:allequal", t ? 6 : 5, 2, false);
	exhaustive_perm<Tree, true>("exh:alternating", t ? 6 : 5, 3, false);
	exhaustive_perm<Tree, true>("exh:reinsertion", t ? 6 : 5, 0, true);
	exhaustive_perm<PlainTree, false>("exh:plain", 5, 0, false);
	exhaustive_order("exh:order", t ? 7 : 6);
	random_histories<Tree, true>("rand:small", scaled(150, 4000), 60, 400, 1);
	random_histories<Tree, true>("rand:large", scaled(6, 200), t ? 20000 : 3000, t ? 60000 : 8000, 512);
	random_histories<PlainTree, false>("rand:plain", scaled(30, 1000), 200, 1000, 8);
	// node pools are std::vector<Node>: addresses ascend with the id, keys do not (descending/organ-pipe/random streams), so an
	// order by address instead of by key is visible
	random_histories<TransparentTree, false>("rand:std-less-void", scaled(12, 300), 120, 500, 4);
	random_histories<TransparentGreaterTree, false>("rand:std-greater-void", scaled(12, 300), 120, 500, 4);
	random_histories<GenericTree, false>("rand:generic-functor", scaled(12, 300), 120, 500, 4);
	random_histories<FnTree, false>("rand:function-pointer", scaled(12, 300), 120, 500, 4);
	sample("exh:distinct: every insertion order of 6 ranked keys, full check after each insert, then every removal order with full check + hook-reset check after each remove");
	sample("rand:large: up to 3000 (thorough 20000) nodes, key streams ascending/descending/organ-pipe/4-valued/random, removal targets root/first/last/random, full check every 512 ops");
	return finish();
}
