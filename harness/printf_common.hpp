// Shared by the C19 (differential) and C20 (memory-safety / totality) drivers:
//  - RecSink + the printf agent (same protocol as the one in tests/tests.cpp)
//  - ExactVaList: a hand-built x86-64 SysV va_list whose overflow area is an exact-size heap array, so the (n+1)-th
//    va_arg is an AddressSanitizer heap-buffer-overflow
//  - an independent tokenizer of the printf grammar that computes which argument slots a format consumes
#pragma once
#include "common/verif.hpp"
#include "common/track.hpp"
#include <frg/printf.hpp>
#include <frg/logging.hpp>
#include <string>
#include <vector>
#include <optional>
#include <map>
#include <memory>
#include <climits>

#if !defined(__x86_64__)
#error "ExactVaList relies on the x86-64 SysV va_list layout"
#endif

namespace pf {
using namespace verif;

struct RecSink {
	std::string out;
	size_t limit = 1u << 22; // a sink may refuse more (bounded memory): counted as an agent error
	bool overflowed = false;
	void append(char c) { if(out.size() < limit) out.push_back(c); else overflowed = true; }
	void append(const char *s) { while(*s) append(*s++); }
	void append(const char *s, size_t n) { for(size_t i = 0; i < n; i++) append(s[i]); }
};

struct Agent {
	RecSink *sink_;
	frg::va_struct *vsp_;
	struct LocaleKind { const char *sep, *grouping, *name; };
	// localeconv()-style grouping strings: sizes from the least significant group on, the last one repeats
	static LocaleKind locale_kind(int k) {
		switch(k) {
		case 2: return {",", "\3\2", "en_IN-like (\",\", last group 3, then groups of 2)"};
		case 3: return {"\xe2\x80\xaf", "\2\3\4", "(3-byte separator, groups 2, 3, then 4)"};
		case 4: return {".", "\1", "(\".\", groups of 1)"};
		default: return {",", "\3", "en_US-like (\",\", groups of 3)"};
		}
	}
	bool *unexpected_terminal;
	bool lenient = false;      // ignore unknown conversion characters instead of reporting an error (both kinds of agent exist)
	bool clamp_output = false; // for inputs with astronomically large widths: expand at most 1000 pad characters (the parse is what is under test)
	int en_locale = 0;         // hand do_printf_ints the locale_options of locale_kind(en_locale) instead of the default ones (1: en_US-like: ".", ",", groups of 3)
	frg::expected<frg::format_error> operator()(char c) { sink_->append(c); return frg::success; }
	frg::expected<frg::format_error> operator()(const char *c, size_t n) { sink_->append(c, n); return frg::success; }
	frg::expected<frg::format_error> operator()(char t, frg::format_options opts, frg::printf_size_mod szmod) {
		if(clamp_output) { if(opts.minimum_width > 1000) opts.minimum_width = 1000; if(opts.precision && *opts.precision > 1000) opts.precision = 1000; }
		switch(t) {
		case 'c': case 'p': case 's': frg::do_printf_chars(*sink_, t, opts, szmod, vsp_); break;
		case 'd': case 'i': case 'o': case 'x': case 'X': case 'b': case 'B': case 'u':
			if(en_locale) frg::do_printf_ints(*sink_, t, opts, szmod, vsp_, frg::locale_options(".", locale_kind(en_locale).sep, locale_kind(en_locale).grouping));
			else frg::do_printf_ints(*sink_, t, opts, szmod, vsp_);
			break;
		default: *unexpected_terminal = true; if(lenient) break; return frg::format_error::agent_error; // a strict agent reports the unknown conversion, a lenient one ignores it
		}
		if(sink_->overflowed) return frg::format_error::agent_error;
		return frg::success;
	}
};

// exact-size variadic argument area
struct ExactVaList {
	uint64_t *slots = nullptr; size_t n = 0;
	ExactVaList(const std::vector<uint64_t> &v) : n(v.size()) {
		slots = (uint64_t *)malloc(n * 8 ? n * 8 : 1);
		for(size_t i = 0; i < n; i++) slots[i] = v[i];
#ifdef VERIF_ASAN
		if(!n) __asan_poison_memory_region(slots, 1);
#endif
	}
	~ExactVaList() {
#ifdef VERIF_ASAN
		if(!n) __asan_unpoison_memory_region(slots, 1);
#endif
		free(slots);
	}
	ExactVaList(const ExactVaList &) = delete;
	struct SysVTag { unsigned gp_offset, fp_offset; void *overflow_arg_area, *reg_save_area; };
	void init(va_list ap) const {
		static_assert(sizeof(SysVTag) == sizeof(va_list), "unexpected va_list layout");
		SysVTag t;
		t.gp_offset = 48;      // all six integer registers "used up"
		t.fp_offset = 304;     // all vector registers "used up"
		t.overflow_arg_area = slots;
		t.reg_save_area = nullptr;
		memcpy((void *)ap, &t, sizeof t);
	}
};

struct FriggResult { bool completed = false; bool panicked = false; bool agent_error = false; bool unexpected_terminal = false; std::string out, panic; };

// fmt must point to a NUL-terminated string in a GuardedBuf (exact size)
inline FriggResult run_frigg(const char *fmt, const std::vector<uint64_t> &slots, bool clamp_output = false, bool lenient = false, int en_locale = 0) {
	FriggResult r;
	ExactVaList ev(slots);
	frg::va_struct vs;
	ev.init(vs.args);
	// NL_ARGMAX (9) positional entries, exact size
	frg::arg *arg_list = (frg::arg *)malloc(sizeof(frg::arg) * 9);
	memset(arg_list, 0xCD, sizeof(frg::arg) * 9);
	vs.arg_list = arg_list;
	RecSink sink;
	try {
		auto res = frg::printf_format(Agent{&sink, &vs, &r.unexpected_terminal, lenient, clamp_output, en_locale}, fmt, &vs);
		r.completed = true;
		r.agent_error = !res;
	} catch(const PanicStop &p) { r.panicked = true; r.panic = p.msg; }
	free(arg_list);
	r.out = std::move(sink.out);
	return r;
}

inline std::string run_glibc(const char *fmt, const std::vector<uint64_t> &slots) {
	ExactVaList ev(slots);
	va_list ap;
	ev.init(ap);
	char buf[4096];
	int n = vsnprintf(buf, sizeof buf, fmt, ap);
	if(n < 0) return "<vsnprintf error>";
	if((size_t)n >= sizeof buf) {
		std::string big(n + 1, 0);
		ExactVaList ev2(slots); va_list ap2; ev2.init(ap2);
		vsnprintf(big.data(), big.size(), fmt, ap2);
		big.resize(n);
		return big;
	}
	return std::string(buf, n);
}

// ---------------------------------------------------------------- independent tokenizer of the printf grammar
// %[n$][flags][width|*][.prec|.*][len]conv  -- computes the class of every variadic slot the format consumes.
enum SlotClass { S_INT, S_STR, S_PTR, S_CHAR, S_WSTR };
struct Directive { bool positional = false; int pos = 0; std::string flags; bool star_w = false, star_p = false, has_w = false, has_p = false; long width = 0, prec = 0; std::string len; char conv = 0; bool truncated = false; };
struct Parsed { std::vector<Directive> dirs; std::vector<SlotClass> slots; bool any_positional = false, any_sequential = false; bool truncated = false; bool weird = false;
	bool pos_sizes_uniform = true; // all positional fetches have the same slot size class (4-byte int vs 8-byte long/pointer)
	bool pos_conflict = false;     // one position used both as an integer and as a pointer: no argument list can satisfy the format
};

inline Parsed tokenize(const std::string &f) {
	Parsed P;
	size_t i = 0, n = f.size();
	std::vector<SlotClass> seq;
	std::vector<std::pair<int, SlotClass>> posl;
	auto at = [&](size_t k) -> char { return k < n ? f[k] : 0; };
	while(i < n) {
		if(f[i] != '%') { i++; continue; }
		i++;
		if(i >= n) { P.truncated = true; break; }
		if(f[i] == '%') { i++; continue; }
		Directive d;
		// flags and n$ may interleave the way frigg's loop accepts them
		while(true) {
			char c = at(i);
			if(c >= '1' && c <= '9' && at(i + 1) == '$') { d.positional = true; d.pos = c - '0'; i += 2; }
			else if(c == '0' && at(i + 1) == '$') { P.weird = true; d.positional = false; d.pos = 0; i += 2; } // "0$" is no position (n >= 1): undefined input; the lenient reading is a sequential directive - also when it follows an "n$" in the same directive (the last one wins, as for two positions)
			else if(c == '-' || c == '+' || c == ' ' || c == '#' || c == '0' || c == '\'') { d.flags.push_back(c); i++; }
			else break;
		}
		if(at(i) == '*') { d.star_w = true; i++; }
		else { while(at(i) >= '0' && at(i) <= '9') { d.has_w = true; d.width = d.width * 10 + (at(i) - '0'); if(d.width > INT_MAX) { P.weird = true; d.width = INT_MAX; } i++; } }
		if(at(i) == '.') {
			i++; d.has_p = true;
			if(at(i) == '*') { d.star_p = true; i++; }
			else { while(at(i) >= '0' && at(i) <= '9') { d.prec = d.prec * 10 + (at(i) - '0'); if(d.prec > INT_MAX) { P.weird = true; d.prec = INT_MAX; } i++; } }
		}
		if(at(i) == 'l') { i++; if(at(i) == 'l') { d.len = "ll"; i++; } else d.len = "l"; }
		else if(at(i) == 'h') { i++; if(at(i) == 'h') { d.len = "hh"; i++; } else d.len = "h"; }
#ifdef FRG_DONT_USE_LONG_DOUBLE
		else if(at(i) == 'z' || at(i) == 't' || at(i) == 'j') { d.len = std::string(1, at(i)); i++; } // (in this configuration of printf.hpp 'L' is no length modifier but an unknown conversion character)
#else
		else if(at(i) == 'z' || at(i) == 't' || at(i) == 'j' || at(i) == 'L') { d.len = std::string(1, at(i)); i++; }
#endif
		// slots in consumption order: width, precision, value. A '*' that was parsed consumes its argument even when the
		// directive turns out to be truncated afterwards (the conversion character is what is missing, not the '*').
		auto add = [&](SlotClass c) { if(d.positional) posl.push_back({d.pos, c}); else seq.push_back(c); };
		if(d.star_w) add(S_INT);
		if(d.star_p) add(S_INT);
		if(i >= n) { d.truncated = true; P.truncated = true; if(d.positional) P.any_positional = true; else P.any_sequential = true; P.dirs.push_back(d); break; }
		d.conv = f[i++];
		switch(d.conv) {
		case 'd': case 'i': case 'u': case 'o': case 'x': case 'X': case 'b': case 'B': add(S_INT); break;
		case 'c': add(S_CHAR); break;
		case 's': add(d.len == "l" ? S_WSTR : S_STR); break;
		case 'p': add(S_PTR); break;
		default: break; // unknown conversion: the agent consumes nothing
		}
		if(d.positional) P.any_positional = true; else P.any_sequential = true;
		P.dirs.push_back(d);
	}
	// Slot layout. frigg fetches positional arguments by popping every slot up to the highest position referenced so far,
	// so the area must hold max(position) slots; sequential directives consume one slot each after those already popped.
	// (Mixing both styles is undefined in POSIX; the layout below is the superset that is safe to supply.)
	int maxpos = 0;
	for(auto &p : posl) maxpos = std::max(maxpos, p.first);
	{ // size classes of positional fetches, in the order the directives appear
		int first_size = 0;
		for(auto &d : P.dirs) {
			if(!d.positional) continue;
			bool wide = (d.len == "l" || d.len == "ll" || d.len == "z" || d.len == "t" || d.len == "j");
			std::vector<int> sizes;
			if(d.star_w) sizes.push_back(4);
			if(d.star_p) sizes.push_back(4);
			switch(d.conv) { case 'd': case 'i': case 'u': case 'o': case 'x': case 'X': case 'b': case 'B': sizes.push_back(wide ? 8 : 4); break; case 'c': sizes.push_back(4); break; case 's': case 'p': sizes.push_back(8); break; default: break; }
			for(int sz : sizes) { if(!first_size) first_size = sz; else if(sz != first_size) P.pos_sizes_uniform = false; }
		}
		std::map<int, int> kind; // position -> 1 integer, 2 char string, 3 wide string (a %p use is compatible with either pointer kind)
		for(auto &p : posl) { if(p.second == S_PTR) { if(kind.count(p.first) && kind[p.first] == 1) P.pos_conflict = true; continue; } int k = (p.second == S_INT || p.second == S_CHAR) ? 1 : p.second == S_STR ? 2 : 3; if(kind.count(p.first) && kind[p.first] != k) P.pos_conflict = true; kind[p.first] = k; }
	}
	P.slots.assign(maxpos, S_INT);
	// the most demanding use of a position decides what is supplied: a string pointer also serves a %p use of the same position
	for(auto &p : posl) if(p.first >= 1) { SlotClass &c = P.slots[p.first - 1]; if(c == S_INT || (c == S_PTR && (p.second == S_STR || p.second == S_WSTR))) c = p.second; }
	for(auto c : seq) P.slots.push_back(c);
	return P;
}

} // namespace pf
