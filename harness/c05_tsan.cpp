// C05 (E2): slab_pool shared by 2-8 free-running threads under ThreadSanitizer, for three mutex types.
// Blocks are filled with plain stores by whoever owns them (a double hand-out is therefore also a data race); blocks move
// between threads through one release/acquire slot per transfer (the only happens-before the harness adds).
// Offline history check: two allocations with intersecting address ranges must satisfy
//   call-timestamp(free of the first) < return-timestamp(allocate of the second)
// (the weakest ordering any linearization implies); timestamps come from one relaxed counter.
#define VERIF_OWN_HOOK
#include <new>
#include "common/verif.hpp"
#include <frg/slab.hpp>
#include <frg/spinlock.hpp>
#include <sys/mman.h>
#include <thread>
#include <atomic>
#include <mutex>
#include <map>
#include <vector>
#include <algorithm>

using namespace verif;

static thread_local uint64_t t_jit = 362436069ull;
static unsigned g_jitter_den = 8;
static thread_local int t_pool_locks_held = 0;
extern "C" void frg_verif_point(const char *, const void *, unsigned long) {
	t_jit ^= t_jit << 13; t_jit ^= t_jit >> 7; t_jit ^= t_jit << 17;
	if(t_jit % g_jitter_den == 0) { if(t_jit & 0x100) sched_yield(); else for(volatile int i = 0; i < (int)((t_jit >> 12) & 0x3ff); i++) {} }
}

static std::atomic<uint64_t> g_clock{1};
static inline uint64_t ts() { return g_clock.fetch_add(1, std::memory_order_relaxed); }
static std::atomic<uint64_t> g_policy_under_lock{0};

// mutex wrappers that count how many pool locks the calling thread holds (for the policy-callback assertion)
template<typename L> struct Counting {
	L l;
	void lock() { l.lock(); t_pool_locks_held++; }
	void unlock() { t_pool_locks_held--; l.unlock(); }
};

template<bool ALIGNED, bool BIG = false>
struct MtPolicyT {
	static constexpr size_t pagesize = 0x1000, slabsize = BIG ? 0x10000 : 0x4000, sb_size = BIG ? 0x10000 : 0x4000;
	static constexpr int num_buckets = BIG ? 11 : 6; // 8..256, or 8..8192 (size classes of a page and more)
	std::mutex reg_mutex; // registry touched only on map/unmap (slab creation, large blocks)
	std::map<uintptr_t, std::pair<void *, size_t>> maps;
	std::atomic<uint64_t> n_map{0}, n_unmap{0}, bad_unmap{0};
	uintptr_t map(size_t len, size_t align) requires ALIGNED { return do_map(len, align); }
	uintptr_t map(size_t len) requires (!ALIGNED) { return do_map(len, 0); } // page-aligned only: the pool aligns inside the reservation
	uintptr_t do_map(size_t len, size_t align) {
		if(t_pool_locks_held) g_policy_under_lock++;
		size_t rawlen = len + align + pagesize;
		void *raw = mmap(nullptr, rawlen, PROT_READ | PROT_WRITE, MAP_PRIVATE | MAP_ANONYMOUS | MAP_NORESERVE, -1, 0);
		uintptr_t base = align ? (((uintptr_t)raw + align - 1) & ~(uintptr_t)(align - 1)) : (uintptr_t)raw + pagesize;
		{ std::lock_guard<std::mutex> g(reg_mutex); maps[base] = {raw, rawlen}; }
		n_map++;
		return base;
	}
#ifdef C05_TRACE_HOOKS
	// the optional allocation-trace hooks: the pool's tracing code runs in every thread; a record must consist of the calling
	// thread's own frames (and TSan watches whatever memory the records are assembled in)
	bool enable_trace() { return true; }
	static uintptr_t my_trace_id() { static std::atomic<uintptr_t> next{1}; static thread_local uintptr_t id = next++; return id; }
	template<typename F> void walk_stack(F f) { uintptr_t me = my_trace_id(); for(uintptr_t i = 0; i < 5; i++) f((me << 12) + i); }
	void output_trace(void *buffer, size_t n) {
		auto *b = (const uint8_t *)buffer; uintptr_t me = my_trace_id();
		auto word = [&](size_t off) { uint64_t w = 0; for(int i = 0; i < 8; i++) w |= (uint64_t)b[off + i] << (8 * i); return w; };
		size_t hdr = n >= 1 && b[0] == 'a' ? 17 : 9;
		bool ok = n >= hdr + 8 && (b[0] == 'a' || b[0] == 'f') && word(n - 8) == 0xA5A5A5A5A5A5A5A5ull;
		for(size_t off = hdr; ok && off + 8 <= n - 8; off += 8) if((word(off) >> 12) != me) ok = false;
		if(!ok) bad_trace++;
		n_trace++;
	}
	std::atomic<uint64_t> bad_trace{0}, n_trace{0};
#endif
	void unmap(uintptr_t base, size_t) {
		if(t_pool_locks_held) g_policy_under_lock++;
		std::pair<void *, size_t> m{nullptr, 0};
		{ std::lock_guard<std::mutex> g(reg_mutex); auto it = maps.find(base); if(it == maps.end()) { bad_unmap++; return; } m = it->second; maps.erase(it); }
		munmap(m.first, m.second);
		n_unmap++;
	}
};

struct AllocEv { uintptr_t addr; size_t size; uint64_t alloc_ret, free_call; };

static uint8_t pat_byte(uint64_t pat, size_t i) { return (uint8_t)((pat >> ((i % 8) * 8)) + i * 11); }

template<typename M, bool ALIGNED = true, bool BIG = false>
static void torture(const char *mname, long long idx, int nthreads, unsigned nops) {
	using MtPolicy = MtPolicyT<ALIGNED, BIG>;
	std::string mode = std::string("tsan:") + mname + (ALIGNED ? "" : ":unaligned-map") + (BIG ? ":page-sized-classes" : "");
	begin_case(mode.c_str(), idx);
	MtPolicy pol;
	auto *pool = new frg::slab_pool<MtPolicy, Counting<M>>(pol);
	const int NSLOTS = 64;
	struct Slot { std::atomic<void *> p{nullptr}; size_t size = 0; uint64_t pat = 0; uint64_t alloc_ret = 0; };
	std::vector<Slot> xfer(NSLOTS);       // hand-off slots: release on put, acquire on take
	std::vector<std::vector<AllocEv>> logs(nthreads);
	std::atomic<uint64_t> corrupt{0}, nulls{0}, cross{0}, reallocs{0};
	const bool large_heavy = (idx % 3 == 2); // every third run: mostly large blocks, so that the page accounting and the region bookkeeping run concurrently
	// pages a slab of each size class accounts for, measured on a scratch pool of the same type (single-threaded; the figure depends on
	// the class because the frame overhead is rounded up to the object size)
	std::map<size_t, size_t> pages_of_class;
	{ MtPolicy sp; auto *scratch = new frg::slab_pool<MtPolicy, Counting<M>>(sp);
	  for(int b = 0; b < MtPolicy::num_buckets; b++) { size_t cls = size_t(8) << b; size_t before = scratch->numUsedPages(); void *q = scratch->allocate(cls); pages_of_class[scratch->get_size(q)] = scratch->numUsedPages() - before; scratch->free(q); }
	  for(auto &kv : sp.maps) munmap(kv.second.first, kv.second.second); delete scratch; }
	std::vector<std::thread> th;
	for(int t = 0; t < nthreads; t++) th.emplace_back([&, t] {
		t_jit = 1000003ull * (t + 1) + idx * 7919;
		Rng r(derive_seed("mt", idx * 100 + t));
		struct Mine { void *p; size_t size; uint64_t pat; uint64_t alloc_ret; };
		std::vector<Mine> mine;
		auto release_block = [&](Mine b, bool dealloc) {
			auto *d = (uint8_t *)b.p;
			for(size_t i = 0; i < b.size; i++) if(d[i] != pat_byte(b.pat, i)) { corrupt++; break; }
			uint64_t fc = ts();
			if(dealloc) pool->deallocate(b.p, b.size); else pool->free(b.p);
			logs[t].push_back({(uintptr_t)b.p, b.size, b.alloc_ret, fc});
		};
		for(unsigned i = 0; i < nops; i++) {
			int z = r.below(100);
			if(z < 45 || mine.empty()) {
				size_t n = BIG ? r.pick(std::vector<size_t>{64, 2048, 4096, 4096, 4000, 8192, 8192, 8000, 8193, 300}) : large_heavy ? r.pick(std::vector<size_t>{8, 64, 300, 5000, 5000, 9000, 20000, 300, 4097, 70000}) : r.pick(std::vector<size_t>{8, 8, 16, 64, 64, 64, 200, 256, 256, 300, 5000});
				void *p = pool->allocate(n);
				uint64_t ar = ts();
				if(!p) { nulls++; continue; }
				size_t s = pool->get_size(p);
				uint64_t pat = r.next();
				auto *d = (uint8_t *)p; for(size_t k = 0; k < s; k++) d[k] = pat_byte(pat, k); // plain stores
				mine.push_back({p, s, pat, ar});
			} else if(z < 68) {
				size_t k = r.below(mine.size()); Mine b = mine[k]; mine.erase(mine.begin() + k);
				release_block(b, r.chance(1, 2));
			} else if(z < 75) { // realloc (in place or moving); a moved block ends the old allocation's life at the call
				size_t k = r.below(mine.size()); Mine b = mine[k];
				{ auto *d = (uint8_t *)b.p; for(size_t q = 0; q < b.size; q++) if(d[q] != pat_byte(b.pat, q)) { corrupt++; break; } }
				size_t n2 = r.pick(std::vector<size_t>{1, 16, 60, 64, 65, 250, 256, 257, 4000, 6000});
				uint64_t fc = ts();
				void *q = pool->realloc(b.p, n2);
				uint64_t ar = ts();
				if(!q) { nulls++; continue; }
				if(q != b.p) logs[t].push_back({(uintptr_t)b.p, b.size, b.alloc_ret, fc});
				size_t s2 = pool->get_size(q);
				uint64_t pat = r.next();
				auto *d2 = (uint8_t *)q; for(size_t w = 0; w < s2; w++) d2[w] = pat_byte(pat, w);
				mine[k] = {q, s2, pat, q != b.p ? ar : b.alloc_ret};
				reallocs++;
			} else if(z < 88) { // hand a block to another thread
				size_t k = r.below(mine.size()); Mine b = mine[k];
				Slot &s = xfer[r.below(NSLOTS)];
				if(s.p.load(std::memory_order_relaxed) == nullptr) {
					// single producer per attempt: claim with CAS on a sentinel, fill, then publish with release
					void *expected = nullptr;
					if(s.p.compare_exchange_strong(expected, (void *)1, std::memory_order_acquire)) {
						s.size = b.size; s.pat = b.pat; s.alloc_ret = b.alloc_ret;
						s.p.store(b.p, std::memory_order_release);
						mine.erase(mine.begin() + k);
					}
				}
			} else { // take a block another thread handed over and free it here (cross-thread free)
				Slot &s = xfer[r.below(NSLOTS)];
				void *p = s.p.load(std::memory_order_acquire);
				if(p && p != (void *)1 && s.p.compare_exchange_strong(p, (void *)1, std::memory_order_acquire)) {
					Mine b{p, s.size, s.pat, s.alloc_ret};
					s.p.store(nullptr, std::memory_order_release);
					release_block(b, false);
					cross++;
				}
			}
		}
		for(auto &b : mine) release_block(b, false);
	});
	for(auto &x : th) x.join();
	// drain hand-off slots
	for(auto &s : xfer) { void *p = s.p.load(); if(p && p != (void *)1) { uint64_t fc = ts(); pool->free(p); logs[0].push_back({(uintptr_t)p, s.size, s.alloc_ret, fc}); } }
	// offline history check
	std::vector<AllocEv> all;
	for(auto &l : logs) all.insert(all.end(), l.begin(), l.end());
	count("tsan_allocations", all.size()); count("tsan_cross_thread_frees", cross.load()); count("tsan_reallocs", reallocs.load());
	std::sort(all.begin(), all.end(), [](const AllocEv &a, const AllocEv &b) { return a.addr < b.addr || (a.addr == b.addr && a.alloc_ret < b.alloc_ret); });
	uint64_t overlaps = 0;
	for(size_t i = 0; i < all.size(); i++)
		for(size_t j = i + 1; j < all.size() && all[j].addr < all[i].addr + all[i].size; j++) {
			const AllocEv &x = all[i], &y = all[j];
			// live intervals (alloc_ret, free_call) must not overlap in any linearization: one must be freed before the other is returned
			bool ok = x.free_call < y.alloc_ret || y.free_call < x.alloc_ret;
			if(!ok) overlaps++;
		}
	std::string key = std::string("C05:threads:") + mname;
	if(overlaps) violation(key + ":handed-out-twice", strf("%llu pairs of allocations with intersecting address ranges were live at the same time (neither was freed before the other was returned)", (unsigned long long)overlaps));
	if(corrupt.load()) violation(key + ":content-changed", strf("%llu blocks had their pattern changed while owned", (unsigned long long)corrupt.load()));
	if(nulls.load()) violation(key + ":null", "allocate returned null although map() never fails");
	if(g_policy_under_lock.load()) violation(key + ":policy-called-with-pool-lock", strf("Policy::map/unmap was entered %llu times while the calling thread held a pool mutex", (unsigned long long)g_policy_under_lock.load()));
	if(pol.bad_unmap.load()) violation(key + ":unmap-unknown", "unmap of an unknown region");
#ifdef C05_TRACE_HOOKS
	if(pol.bad_trace.load()) violation(key + ":trace-record-mixed", strf("%llu of %llu records handed to output_trace() were not made of the calling thread's own frames and framing", (unsigned long long)pol.bad_trace.load(), (unsigned long long)pol.n_trace.load()));
	count("policy_trace_records", pol.n_trace.load());
#endif
	// quiescent accounting: every block is freed, so only slabs remain mapped (large reservations are returned when freed) and the
	// used-page counter must be what those slabs added - in any sequential order of the calls that were made. The class of a slab is
	// the reported size of any block that was handed out from it; a slab nobody ever got a block from leaves the check inconclusive.
	{ size_t remaining; { std::lock_guard<std::mutex> g(pol.reg_mutex); remaining = pol.maps.size(); }
	  std::map<uintptr_t, size_t> slab_class;
	  for(auto &e : all) if(pages_of_class.count(e.size)) slab_class[e.addr & ~(uintptr_t)(MtPolicy::sb_size - 1)] = e.size;
	  size_t used = pool->numUsedPages();
	  if(slab_class.size() == remaining) {
		size_t expect = 0; for(auto &kv : slab_class) expect += pages_of_class[kv.second];
		if(used != expect) violation(key + ":pages-drift", strf("after all threads finished and every block was freed, numUsedPages()=%zu but the %zu slabs that remain mapped account for %zu pages", used, remaining, expect));
		count("tsan_quiescent_page_accounting_checks");
	  } else count("tsan_quiescent_page_accounting_inconclusive"); }
	{ std::lock_guard<std::mutex> g(pol.reg_mutex); for(auto &kv : pol.maps) munmap(kv.second.first, kv.second.second); }
	delete pool;
	note_distinct(mix(hash_str(mode), idx * 16 + nthreads));
}

int main(int argc, char **argv) {
	parse_args(argc, argv, "c05_tsan");
	g_panic_exits = true;
	start_inconclusive_watchdog(opt.thorough() ? 3000 : 150);
	rec.rule = "a case is one run of 2-8 free-running threads doing allocate/free/deallocate and cross-thread frees on a fresh pool (16K slabs, 6 classes + large blocks) under ThreadSanitizer; "
		"the merged per-thread history is checked for overlapping live intervals; distinct = (mutex type, thread count, run index)";
	uint64_t runs = scaled(14, 200);
	for(uint64_t i = 0; i < runs; i++) {
		long long idx = i * opt.nshards + opt.shard;
		int nt = 2 + idx % 7;
		g_jitter_den = (i % 2) ? 4 : 16;
		unsigned nops = opt.thorough() ? 6000 : 1500;
		switch(i % 5) {
		case 4: torture<frg::simple_spinlock, true, true>("simple_spinlock", idx, nt, nops); break; // 64K slabs, classes up to 8192 bytes
		case 0: torture<frg::ticket_spinlock>("ticket_spinlock", idx, nt, nops); break;
		case 1: torture<frg::simple_spinlock>("simple_spinlock", idx, nt, nops); break;
		case 2: torture<std::mutex>("std_mutex", idx, nt, nops); break;
		default: torture<frg::ticket_spinlock, false>("ticket_spinlock", idx, nt, nops); break;
		}
	}
	sample("tsan:ticket_spinlock: 5 threads x 1500 ops (45% allocate of {8,16,64,200,256,300,5000}, 30% free/deallocate, 13% hand a block over, 12% free a block another thread allocated) on a fresh pool, jitter at the three slab hook points");
	return finish();
}
