// C17 (value holders vs. their standard counterparts) and the holder part of C16 (lifetime / allocation registries):
// optional, variant, expected, manual_box, tuple, eternal, unique_ptr, unique_memory.
//   --arg prop=C17 : reference-model mismatches are violations;  --arg prop=C16 : registry events are violations.
#include "common/verif.hpp"
#include "common/track.hpp"
#include "common/seq.hpp"
#include <variant>
#include <initializer_list>
#include <optional>
#include <frg/optional.hpp>
#include <frg/variant.hpp>
#include <frg/expected.hpp>
#include <frg/manual_box.hpp>
#include <frg/tuple.hpp>
#include <frg/eternal.hpp>
#include <frg/unique.hpp>
#include <frg/allocation.hpp>
#include <optional>
#include <tuple>

using namespace verif;

static std::string g_prop = "C17";

template<typename T> static T mk(int v) { if constexpr (std::is_same_v<T, int> || std::is_same_v<T, long>) return (T)v; else return T(v); }
template<typename T> static int val(const T &x) { if constexpr (std::is_same_v<T, int> || std::is_same_v<T, long>) return (int)x; else return x.get(); }
template<typename T> static const char *tname() {
	if constexpr (std::is_same_v<T, int>) return "int"; else if constexpr (std::is_same_v<T, long>) return "long";
	else if constexpr (std::is_same_v<T, Elem>) return "Elem"; else if constexpr (std::is_same_v<T, ElemMoveOnly>) return "MoveOnly"; else return "CopyOnly";
}

// a model value: engaged flag + value; `any` = value unspecified (moved-from)
struct MVal { bool on = false; int v = 0; bool any = false; };

// source type for converting assignment optional<T> = optional<SrcInt>
struct SrcInt {
	int v;
	template<typename T> requires (!std::is_arithmetic_v<T>) operator T() const { return T(v); }
	operator long() const { return v; }
};

// ================================================================= optional<T>
template<typename T>
struct OptAdapter {
	using O = frg::optional<T>;
	static constexpr const char *base = "optional";
	static constexpr int NOPS = 20;
	static constexpr bool copyable = std::is_copy_constructible_v<T>;
	struct State {
		std::unique_ptr<O> a, b;
		MVal ma, mb;
		int next = 1;
		State(AllocState &) { a.reset(new O()); b.reset(new O()); }
	};
	static void compare_one(SeqCtx &c, O &o, const MVal &m, const char *w) {
		const O &co = o;
		if(o.has_value() != m.on) return c.fail("has_value", strf("%s.has_value()=%d expected %d", w, (int)o.has_value(), (int)m.on));
		if((bool)co != m.on) return c.fail("bool", strf("bool(%s)", w));
		if(!m.on) return;
		T *p = &*o;
		if(o.operator->() != p || &o.value() != p || &*co != p || &co.value() != p) return c.fail("accessor-identity", strf("accessors of %s do not designate the same held object", w));
		if(!m.any) {
			if(val(*o) != m.v) return c.fail("value", strf("*%s=%d expected %d", w, val(*o), m.v));
			if constexpr (std::is_same_v<T, int> || std::is_same_v<T, long>) {
				if(!(o == (T)m.v) || !((T)m.v == o) || (o != (T)m.v) || !(o != (T)(m.v + 1))) return c.fail("compare", "operator==/!= with a value");
				if((o < (T)m.v) || !(o < (T)(m.v + 1))) return c.fail("compare", "operator< with a value");
			}
		}
	}
	static void compare(SeqCtx &c, State &s) {
		compare_one(c, *s.a, s.ma, "a"); if(c.bad) return;
		compare_one(c, *s.b, s.mb, "b"); if(c.bad) return;
		if constexpr (std::is_same_v<T, int>) {
			if(!s.ma.on) { if((*s.a == 0) || !(*s.a != 0) || !(*s.a < 0)) return c.fail("compare", "empty optional compared with a value"); }
		}
	}
	static void apply(SeqCtx &c, State &s, int op, uint64_t p) {
		O &a = *s.a; O &b = *s.b;
		switch(op) {
		case 0: s.a.reset(new O()); s.ma = {}; c.op("a=O()"); break;
		case 1: s.a.reset(new O(frg::null_opt)); s.ma = {}; c.op("a=O(null_opt)"); break;
		case 2: if constexpr (copyable) { T t = mk<T>(s.next); s.a.reset(new O(t)); s.ma = {true, s.next++}; c.op("a=O(const T&)"); } break;
		case 3: s.a.reset(new O(mk<T>(s.next))); s.ma = {true, s.next++}; c.op("a=O(T&&)"); break;
		case 4: b = mk<T>(s.next); s.mb = {true, s.next++}; c.op("b=T"); break;
		case 5: b = frg::null_opt; s.mb = {}; c.op("b=null_opt"); break;
		case 6: if constexpr (copyable) { a = b; s.ma = s.mb; c.op("a=b"); } break;
		case 7: a = std::move(b); s.ma = s.mb; if(s.mb.on) s.mb.any = true; c.op("a=move(b)"); break;
		case 8: if constexpr (copyable) { s.a.reset(new O(b)); s.ma = s.mb; c.op("a=O(b)"); } break;
		case 9: s.a.reset(new O(std::move(b))); s.ma = s.mb; if(s.mb.on) s.mb.any = true; c.op("a=O(move(b))"); break;
		case 10: a = mk<T>(s.next); s.ma = {true, s.next++}; c.op("a=T"); break;
		case 11: a = frg::null_opt; s.ma = {}; c.op("a=null_opt"); break;
		case 12: a.emplace(s.next); s.ma = {true, s.next++}; c.op("a.emplace(v)"); break;
		case 13: if constexpr (!std::is_arithmetic_v<T>) { a.emplace(s.next / 1000, s.next % 1000); s.ma = {true, s.next++}; c.op("a.emplace(x,y)"); } break;
		case 14: if constexpr (copyable) { O &ar = a; a = ar; c.op("a=a"); } break;
		case 15: { frg::optional<SrcInt> src; if(p & 1) src = SrcInt{s.next}; a = src; s.ma = (p & 1) ? MVal{true, s.next++} : MVal{}; c.op((p & 1) ? "a=optional<U>(v)" : "a=optional<U>()"); break; }
		case 16: { frg::optional<SrcInt> src; if(p & 1) src = SrcInt{s.next}; a = std::move(src); s.ma = (p & 1) ? MVal{true, s.next++} : MVal{}; c.op((p & 1) ? "a=move(optional<U>(v))" : "a=move(optional<U>())"); break; }
		case 17: if(s.ma.on) { *a = mk<T>(s.next); s.ma = {true, s.next++}; c.op("*a=T"); } break;
		case 19: a = {}; s.ma = {}; c.op("a={}"); break; // (std::optional: `= {}` disengages, also for scalar T)
		case 18: if(s.ma.on && !s.ma.any) { T t = std::move(a).value(); if(val(t) != s.ma.v) c.fail("value", "move(a).value()"); s.ma.any = true; c.op("move(a).value()"); } break;
		}
	}
};

// ================================================================= variant<int, Elem, ElemB>
struct ElemB {
	Elem e;
	explicit ElemB(int v) : e(v) {}
	int get() const { return e.get(); }
};

struct VarAdapter {
	using V = frg::variant<int, Elem, ElemB>;
	static constexpr const char *base = "variant";
	static constexpr int NOPS = 19;
	struct M { int tag = -1; int v = 0; bool any = false; };
	struct State {
		std::unique_ptr<V> a, b;
		M ma, mb;
		int next = 1;
		State(AllocState &) { a.reset(new V()); b.reset(new V()); }
	};
	static void compare_one(SeqCtx &c, V &x, const M &m, const char *w) {
		const V &cx = x;
		if((bool)cx != (m.tag >= 0)) return c.fail("bool", strf("bool(%s)=%d expected %d", w, (int)(bool)cx, (int)(m.tag >= 0)));
		size_t et = m.tag < 0 ? V::invalid_tag : (size_t)m.tag;
		if(x.tag() != et) return c.fail("tag", strf("%s.tag()=%zd expected %zd", w, (ssize_t)x.tag(), (ssize_t)et));
		if(cx.is<int>() != (m.tag == 0) || cx.is<Elem>() != (m.tag == 1) || cx.is<ElemB>() != (m.tag == 2)) return c.fail("is", strf("%s.is<X>()", w));
		static_assert(V::tag_of<int>() == 0 && V::tag_of<Elem>() == 1 && V::tag_of<ElemB>() == 2);
		if(m.tag < 0) return;
		int got; const void *p1, *p2;
		if(m.tag == 0) { got = x.get<int>(); p1 = &x.get<int>(); p2 = &cx.get<int>(); }
		else if(m.tag == 1) { got = x.get<Elem>().get(); p1 = &x.get<Elem>(); p2 = &cx.get<Elem>(); }
		else { got = x.get<ElemB>().get(); p1 = &x.get<ElemB>(); p2 = &cx.get<ElemB>(); }
		if(p1 != p2) return c.fail("accessor-identity", "get() and const get() designate different objects");
		if(!m.any && got != m.v) return c.fail("value", strf("%s holds %d expected %d (alternative %d)", w, got, m.v, m.tag));
		if(!m.any) {
			int viaapply = x.apply([](auto &o) -> int { if constexpr (std::is_same_v<std::remove_reference_t<decltype(o)>, int>) return o; else return o.get(); });
			if(viaapply != m.v) return c.fail("apply", strf("apply() visited %d expected %d", viaapply, m.v));
			int viaconst = cx.const_apply([](const auto &o) -> int { if constexpr (std::is_same_v<std::remove_cvref_t<decltype(o)>, int>) return o; else return o.get(); });
			if(viaconst != m.v) return c.fail("apply", strf("const_apply() visited %d expected %d", viaconst, m.v));
		}
	}
	static void compare(SeqCtx &c, State &s) {
		compare_one(c, *s.a, s.ma, "a"); if(c.bad) return;
		compare_one(c, *s.b, s.mb, "b");
	}
	static void apply(SeqCtx &c, State &s, int op, uint64_t) {
		V &a = *s.a; V &b = *s.b;
		auto moved = [](M &m) { if(m.tag > 0) m.any = true; }; // a moved-from int keeps its value; Elem values are unspecified
		switch(op) {
		case 0: s.a.reset(new V()); s.ma = {}; c.op("a=V()"); break;
		case 1: s.a.reset(new V(s.next)); s.ma = {0, s.next++}; c.op("a=V(int)"); break;
		case 2: s.a.reset(new V(Elem(s.next))); s.ma = {1, s.next++}; c.op("a=V(Elem)"); break;
		case 3: s.a.reset(new V(ElemB(s.next))); s.ma = {2, s.next++}; c.op("a=V(ElemB)"); break;
		case 4: b = V(s.next); s.mb = {0, s.next++}; c.op("b=int"); break;
		case 5: b = V(Elem(s.next)); s.mb = {1, s.next++}; c.op("b=Elem"); break;
		case 6: b = V(ElemB(s.next)); s.mb = {2, s.next++}; c.op("b=ElemB"); break;
		case 7: b = V(); s.mb = {}; c.op("b=empty"); break;
		case 8: a = b; s.ma = s.mb; c.op("a=b"); break;
		case 9: a = std::move(b); s.ma = s.mb; moved(s.mb); c.op("a=move(b)"); break;
		case 10: s.a.reset(new V(b)); s.ma = s.mb; c.op("a=V(b)"); break;
		case 11: s.a.reset(new V(std::move(b))); s.ma = s.mb; moved(s.mb); c.op("a=V(move(b))"); break;
		case 12: a.emplace<int>(s.next); s.ma = {0, s.next++}; c.op("a.emplace<int>"); break;
		case 13: a.emplace<Elem>(s.next); s.ma = {1, s.next++}; c.op("a.emplace<Elem>"); break;
		case 14: a.emplace<ElemB>(s.next); s.ma = {2, s.next++}; c.op("a.emplace<ElemB>"); break;
		case 15: { V &ar = a; a = ar; c.op("a=a"); break; }
		case 16: a = Elem(s.next); s.ma = {1, s.next++}; c.op("a=Elem(v)"); break;
		case 17: if(s.ma.tag == 1) { a.get<Elem>() = Elem(s.next); s.ma = {1, s.next++}; c.op("a.get<Elem>()=v"); } else if(s.ma.tag == 0) { a.get<int>() = s.next; s.ma = {0, s.next++}; c.op("a.get<int>()=v"); } break;
		case 18: a.emplace<Elem>(s.next / 1000, s.next % 1000); s.ma = {1, s.next++}; c.op("a.emplace<Elem>(x,y)"); break;
		}
	}
};

// ================================================================= expected<Err, T>
enum class Err { ok = 0, e1, e2 };
enum class Err2 { ok = 0, x11 = 11, x12 = 12 };

template<typename T>
static frg::expected<Err, int> try_helper(frg::expected<Err, T> src) {
	T v = FRG_TRY(std::move(src));
	return val(v) + 100;
}

template<typename T>
struct ExpAdapter {
	using X = frg::expected<Err, T>;
	static constexpr const char *base = "expected";
	static constexpr int NOPS = 17;
	static constexpr bool copyable = std::is_copy_constructible_v<T>;
	struct M { bool ok = true; int v = 0; Err e = Err::ok; bool any = false; };
	struct State {
		std::unique_ptr<X> a, b;
		M ma, mb;
		int next = 1;
		State(AllocState &) { a.reset(new X(mk<T>(0))); b.reset(new X(mk<T>(0))); }
	};
	static void compare_one(SeqCtx &c, X &x, const M &m, const char *w) {
		const X &cx = x;
		if((bool)cx != m.ok) return c.fail("bool", strf("bool(%s)=%d expected %d", w, (int)(bool)cx, (int)m.ok));
		if(cx.maybe_error() != (m.ok ? Err::ok : m.e)) return c.fail("error", strf("%s.maybe_error()", w));
		if(!m.ok) { if(cx.error() != m.e) return c.fail("error", strf("%s.error()=%d expected %d", w, (int)cx.error(), (int)m.e)); return; }
		if((const void *)&x.value() != (const void *)&cx.value()) return c.fail("accessor-identity", "value() and const value() differ");
		if(!m.any && val(x.value()) != m.v) return c.fail("value", strf("%s.value()=%d expected %d", w, val(x.value()), m.v));
	}
	static void compare(SeqCtx &c, State &s) {
		compare_one(c, *s.a, s.ma, "a"); if(c.bad) return;
		compare_one(c, *s.b, s.mb, "b");
	}
	static X from_model(const M &m) { if(m.ok) return X(mk<T>(m.v)); return X(m.e); }
	static void apply(SeqCtx &c, State &s, int op, uint64_t) {
		X &a = *s.a; X &b = *s.b;
		auto moved = [](M &m) { if(m.ok && !std::is_arithmetic_v<T>) m.any = true; };
		switch(op) {
		case 0: s.a.reset(new X(mk<T>(s.next))); s.ma = {true, s.next++}; c.op("a=X(T)"); break;
		case 1: s.a.reset(new X(Err::e1)); s.ma = {false, 0, Err::e1}; c.op("a=X(e1)"); break;
		case 2: s.a.reset(new X(Err::e2)); s.ma = {false, 0, Err::e2}; c.op("a=X(e2)"); break;
		case 3: s.a.reset(new X()); s.ma = {true, 0}; c.op("a=X()"); break;
		case 4: s.a.reset(new X(frg::success)); s.ma = {true, 0}; c.op("a=X(success)"); break;
		case 5: b = X(mk<T>(s.next)); s.mb = {true, s.next++}; c.op("b=T"); break;
		case 6: b = X(Err::e1); s.mb = {false, 0, Err::e1}; c.op("b=e1"); break;
		case 7: if constexpr (copyable) { a = b; s.ma = s.mb; c.op("a=b"); } break;
		case 8: a = std::move(b); s.ma = s.mb; moved(s.mb); c.op("a=move(b)"); break;
		case 9: if constexpr (copyable) { s.a.reset(new X(b)); s.ma = s.mb; c.op("a=X(b)"); } break;
		case 10: s.a.reset(new X(std::move(b))); s.ma = s.mb; moved(s.mb); c.op("a=X(move(b))"); break;
		case 11: { // map
			if(s.ma.ok && s.ma.any) break;
			auto r = a.map([](T x) { return val(x) + 1; });
			c.op("a.map(+1)");
			if((bool)r != s.ma.ok) { c.fail("map", "map changed the state"); break; }
			if(s.ma.ok) { if(r.value() != s.ma.v + 1) c.fail("map", strf("map result %d expected %d", r.value(), s.ma.v + 1)); moved(s.ma); }
			else if(r.error() != s.ma.e) c.fail("map", "map changed the error");
			break; }
		case 12: { // map_error
			if(s.ma.ok && s.ma.any) break;
			auto r = a.map_error([](Err e) { return (Err2)((int)e + 10); });
			c.op("a.map_error(+10)");
			if((bool)r != s.ma.ok) { c.fail("map_error", "map_error changed the state"); break; }
			if(s.ma.ok) { if(val(r.value()) != s.ma.v) c.fail("map_error", "map_error changed the value"); moved(s.ma); }
			else if((int)r.error() != (int)s.ma.e + 10) c.fail("map_error", strf("map_error result %d expected %d", (int)r.error(), (int)s.ma.e + 10));
			break; }
		case 13: if(s.ma.ok && !s.ma.any) { T t = a.unwrap(); c.op("a.unwrap()"); if(val(t) != s.ma.v) c.fail("unwrap", strf("unwrap()=%d expected %d", val(t), s.ma.v)); moved(s.ma); } break;
		case 14: { // FRG_TRY
			M m = s.ma; if(m.ok && m.any) m = {true, 7};
			auto r = try_helper<T>(from_model(m));
			c.op("FRG_TRY");
			if((bool)r != m.ok) { c.fail("try", "FRG_TRY propagated the wrong state"); break; }
			if(m.ok ? (r.value() != m.v + 100) : (r.error() != m.e)) c.fail("try", "FRG_TRY value/error");
			break; }
		case 15: if constexpr (copyable) { X &ar = a; a = ar; c.op("a=a"); } break;
		case 16: if(s.ma.ok) { a.value() = mk<T>(s.next); s.ma = {true, s.next++}; c.op("a.value()=T"); } break;
		}
	}
};

// ================================================================= manual_box<Elem>
struct BoxAdapter {
	using B = frg::manual_box<Elem>;
	static constexpr const char *base = "manual_box";
	static constexpr int NOPS = 6;
	struct State {
		B *a;          // in an exact-size heap block
		MVal m;
		int next = 1;
		State(AllocState &) { a = new B(); }
		~State() { if(a->valid()) a->destruct(); delete a; }
	};
	static void compare(SeqCtx &c, State &s) {
		B &a = *s.a;
		if(a.valid() != s.m.on || (bool)a != s.m.on) return c.fail("valid", strf("valid()=%d expected %d", (int)a.valid(), (int)s.m.on));
		if(!s.m.on) return;
		if(a.get() != a.operator->() || a.get() != &*a) return c.fail("accessor-identity", "get/->/* differ");
		if(a->get() != s.m.v) return c.fail("value", strf("holds %d expected %d", a->get(), s.m.v));
	}
	static void apply(SeqCtx &c, State &s, int op, uint64_t) {
		B &a = *s.a;
		switch(op) {
		case 0: if(!s.m.on) { a.initialize(s.next); s.m = {true, s.next++}; c.op("initialize(v)"); } break;
		case 1: if(!s.m.on) { a.initialize(s.next / 1000, s.next % 1000); s.m = {true, s.next++}; c.op("initialize(x,y)"); } break;
		case 2: if(!s.m.on) { int v = s.next; a.construct_with([v] { return Elem(v); }); s.m = {true, s.next++}; c.op("construct_with"); } break;
		case 3: if(s.m.on) { a.destruct(); s.m = {}; c.op("destruct"); } break;
		case 4: if(s.m.on) { *a = Elem(s.next); s.m = {true, s.next++}; c.op("*a=v"); } break;
		case 5: if(s.m.on) { Elem copy(*a.get()); if(copy.get() != s.m.v) c.fail("value", "copy of held object"); c.op("copy-out"); } break;
		}
	}
};

// ================================================================= unique_ptr<Elem>
struct UPtrAdapter {
	using U = frg::unique_ptr<Elem, TrackedAlloc>;
	static constexpr const char *base = "unique_ptr";
	static constexpr int NOPS = 11;
	struct State {
		AllocState &as;
		std::unique_ptr<U> a, b;
		MVal ma, mb;
		int next = 1;
		State(AllocState &as_) : as(as_) { a.reset(new U(TrackedAlloc(&as))); b.reset(new U(TrackedAlloc(&as))); }
	};
	static void compare_one(SeqCtx &c, U &u, const MVal &m, const char *w) {
		if((bool)u != m.on) return c.fail("bool", strf("bool(%s)", w));
		if((u.get() != nullptr) != m.on) return c.fail("get", strf("%s.get()", w));
		if(!m.on) return;
		if(&*u != u.get() || u.operator->() != u.get()) return c.fail("accessor-identity", "*/->/get differ");
		if(u->get() != m.v) return c.fail("value", strf("%s holds %d expected %d", w, u->get(), m.v));
	}
	static void compare(SeqCtx &c, State &s) { compare_one(c, *s.a, s.ma, "a"); if(!c.bad) compare_one(c, *s.b, s.mb, "b"); }
	static Elem *raw_new(State &s, int v) { TrackedAlloc al(&s.as); return new (al.allocate(sizeof(Elem))) Elem(v); }
	static void apply(SeqCtx &c, State &s, int op, uint64_t) {
		U &a = *s.a; U &b = *s.b;
		switch(op) {
		case 0: a = frg::make_unique<Elem>(TrackedAlloc(&s.as), s.next); s.ma = {true, s.next++}; c.op("a=make_unique(v)"); break;
		case 1: b = frg::make_unique<Elem>(TrackedAlloc(&s.as), s.next / 1000, s.next % 1000); s.mb = {true, s.next++}; c.op("b=make_unique(x,y)"); break;
		case 2: { auto old = s.ma; a = std::move(b); s.ma = s.mb; // the moved-from b is either empty (like std::unique_ptr) or holds a's old object (swap-based
			if((bool)b && old.on) s.mb = old; else s.mb = {};       // assignment): both leave every object owned exactly once, neither is demanded
			c.op("a=move(b)"); break; }
		case 3: s.a.reset(new U(std::move(b))); s.ma = s.mb; s.mb = {}; c.op("a=U(move(b))"); break;
		case 4: swap(a, b); std::swap(s.ma, s.mb); c.op("swap(a,b)"); break;
		case 5: { Elem *p = a.release(); c.op("a.release()"); if((p != nullptr) != s.ma.on) c.fail("release", "release() result"); if(p) { if(p->get() != s.ma.v) c.fail("value", "released object"); p->~Elem(); TrackedAlloc(&s.as).free(p); } s.ma = {}; break; }
		case 6: a.reset(raw_new(s, s.next)); s.ma = {true, s.next++}; c.op("a.reset(new)"); break;
		case 7: a.reset(nullptr); s.ma = {}; c.op("a.reset(nullptr)"); break;
		case 8: s.a.reset(new U(TrackedAlloc(&s.as), raw_new(s, s.next))); s.ma = {true, s.next++}; c.op("a=U(alloc,ptr)"); break;
		case 9: s.a.reset(new U(TrackedAlloc(&s.as))); s.ma = {}; c.op("a=U(alloc)"); break;
		case 10: if(s.ma.on) { *a = Elem(s.next); s.ma = {true, s.next++}; c.op("*a=v"); } break;
		}
	}
};

// ================================================================= unique_memory
struct UMemAdapter {
	using U = frg::unique_memory<TrackedAlloc>;
	static constexpr const char *base = "unique_memory";
	static constexpr int NOPS = 6;
	struct State {
		AllocState &as; TrackedAlloc al;
		std::unique_ptr<U> a, b;
		size_t sa = 0, sb = 0; bool oa = false, ob = false;
		State(AllocState &as_) : as(as_), al(&as_) { a.reset(new U()); b.reset(new U()); }
	};
	static void compare(SeqCtx &c, State &s) {
		if((bool)*s.a != s.oa || (bool)*s.b != s.ob) return c.fail("bool", "operator bool");
		if(s.a->size() != s.sa || s.b->size() != s.sb) return c.fail("size", "size()");
		if((s.a->data() != nullptr) != s.oa) return c.fail("data", "data()");
		if(s.oa && s.sa) { memset(s.a->data(), 0x5a, s.sa); } // whole block writable (ASan: exact size)
	}
	static void apply(SeqCtx &c, State &s, int op, uint64_t p) {
		switch(op) {
		case 0: { size_t n = 1 + p % 100; s.a.reset(new U(s.al, n)); s.sa = n; s.oa = true; c.op(strf("a=U(alloc,%zu)", n)); break; }
		case 1: { size_t n = 1 + p % 7; *s.b = U(s.al, n); s.sb = n; s.ob = true; c.op(strf("b=U(alloc,%zu)", n)); break; }
		case 2: *s.a = std::move(*s.b); s.sa = s.sb; s.oa = s.ob; s.sb = 0; s.ob = false; c.op("a=move(b)"); break;
		case 3: s.a.reset(new U(std::move(*s.b))); s.sa = s.sb; s.oa = s.ob; s.sb = 0; s.ob = false; c.op("a=U(move(b))"); break;
		case 4: swap(*s.a, *s.b); std::swap(s.sa, s.sb); std::swap(s.oa, s.ob); c.op("swap"); break;
		case 5: s.a.reset(new U()); s.sa = 0; s.oa = false; c.op("a=U()"); break;
		}
	}
};

// ================================================================= tuple battery
static void fail17(const std::string &kind, const std::string &msg) {
	count("model_mismatches_flagged");
	if(g_seq_model_armed) violation("C17:model:tuple:" + kind, msg); else count("unarmed:model:tuple:" + kind);
}

static void tuple_case(Rng &r) {
	g_elems.owner = "tuple";
	int x = (int)r.below(1000), y = (int)r.below(1000); long z = (long)r.below(100000);
	{
		frg::tuple<int, Elem, long> t(x, Elem(y), z);
		const auto &ct = t;
		std::tuple<int, int, long> st(x, y, z);
		if(t.get<0>() != std::get<0>(st) || t.get<1>().get() != std::get<1>(st) || t.get<2>() != std::get<2>(st)) fail17("get", "get<n> values/order");
		if(&ct.get<0>() != &t.get<0>() || &ct.get<1>() != &t.get<1>() || &ct.get<2>() != &t.get<2>()) fail17("get-identity", "const get<n> designates a different object");
		if((void *)&t.get<0>() == (void *)&t.get<2>()) fail17("get-identity", "two elements share an address");
		static_assert(std::tuple_size_v<decltype(t)> == 3 && std::is_same_v<std::tuple_element_t<1, decltype(t)>, Elem> && std::is_same_v<std::tuple_element_t<2, decltype(t)>, long>);
		// copy / move / converting construction
		frg::tuple<int, Elem, long> cp(t);
		if(cp.get<0>() != x || cp.get<1>().get() != y || cp.get<2>() != z) fail17("copy", "copy construction");
		frg::tuple<int, Elem, long> mv(std::move(cp));
		if(mv.get<0>() != x || mv.get<1>().get() != y || mv.get<2>() != z) fail17("move", "move construction");
		frg::tuple<short, Elem, int> narrow((short)(x % 100), Elem(y), (int)(z % 1000));
		frg::tuple<int, Elem, long> conv(narrow);
		if(conv.get<0>() != x % 100 || conv.get<1>().get() != y || conv.get<2>() != z % 1000) fail17("convert", "converting copy construction");
		frg::tuple<int, Elem, long> convm(std::move(narrow));
		if(convm.get<0>() != x % 100 || convm.get<1>().get() != y || convm.get<2>() != z % 1000) fail17("convert", "converting move construction");
		// write through get
		t.get<1>() = Elem(y + 1); t.get<0>() = x + 1;
		if(ct.get<1>().get() != y + 1 || ct.get<0>() != x + 1) fail17("get", "write through get<n>");
		// make_tuple
		auto mt = frg::make_tuple(x, Elem(y), z);
		static_assert(std::is_same_v<decltype(mt), frg::tuple<int, Elem, long>>);
		if(mt.get<0>() != x || mt.get<1>().get() != y || mt.get<2>() != z) fail17("make_tuple", "make_tuple values/order");
		int lx = x; auto mt2 = frg::make_tuple(lx, z);
		static_assert(std::is_same_v<decltype(mt2), frg::tuple<int, long>>);
		if(mt2.get<0>() != x || mt2.get<1>() != z) fail17("make_tuple", "make_tuple from lvalues");
		// apply: argument order and values
		int order = frg::apply([&](const int &a, const Elem &b, const long &c_) { return (a == x && b.get() == y && c_ == z) ? 1 : 0; }, (const frg::tuple<int, Elem, long> &)mt);
		if(order != 1) fail17("apply", "apply(const&) argument order/values");
		int seen = frg::apply([&](int a, Elem b, long c_) { return (a == x && b.get() == y && c_ == z) ? 1 : 0; }, std::move(mt));
		if(seen != 1) fail17("apply", "apply(&&) argument order/values");
		auto addr_ok = frg::apply([&](const int &a, const Elem &b, const long &c_) { return &a == &ct.get<0>() && &b == &ct.get<1>() && &c_ == &ct.get<2>(); }, ct);
		if(!addr_ok) fail17("apply-identity", "apply(const&) does not pass the held objects");
		// tuple_cat
		auto c3 = frg::tuple_cat(frg::make_tuple(x, Elem(y)), frg::make_tuple(z), frg::make_tuple((short)7, Elem(y + 2)));
		static_assert(std::is_same_v<decltype(c3), frg::tuple<int, Elem, long, short, Elem>>);
		if(c3.get<0>() != x || c3.get<1>().get() != y || c3.get<2>() != z || c3.get<3>() != 7 || c3.get<4>().get() != y + 2) fail17("tuple_cat", "tuple_cat order/values");
		auto c1 = frg::tuple_cat(frg::make_tuple(x, z));
		if(c1.get<0>() != x || c1.get<1>() != z) fail17("tuple_cat", "tuple_cat of one tuple");
		auto c0 = frg::tuple_cat(); (void)c0;
		static_assert(std::is_same_v<decltype(c0), frg::tuple<>>);
		frg::tuple<int, long> lv(x, z);
		auto c2 = frg::tuple_cat(lv, frg::make_tuple(Elem(y)));
		if(c2.get<0>() != x || c2.get<1>() != z || c2.get<2>().get() != y) fail17("tuple_cat", "tuple_cat with an lvalue tuple");
		// reference members: identity preserved
		int ri = x; Elem re(y); long rl = z;
		frg::tuple<int &, Elem &, const long &> tr(ri, re, rl);
		if(&tr.get<0>() != &ri || &tr.get<1>() != &re || &tr.get<2>() != &rl) fail17("ref-identity", "reference members do not designate the original objects");
		tr.get<0>() = x + 5;
		if(ri != x + 5) fail17("ref-identity", "write through a reference member");
		frg::tuple<int &, Elem &, const long &> trc(tr);
		if(&trc.get<0>() != &ri || &trc.get<1>() != &re) fail17("ref-identity", "copy of a reference tuple");
		bool ra = frg::apply([&](int &a, Elem &b, const long &c_) { return &a == &ri && &b == &re && &c_ == &rl; }, (const frg::tuple<int &, Elem &, const long &> &)tr);
		if(!ra) fail17("ref-identity", "apply on a reference tuple");
		// homogeneous tuple: order cannot hide behind distinct types
		frg::tuple<int, int, int, int> hom(x, y, x + y + 1, -x - 1);
		if(hom.get<0>() != x || hom.get<1>() != y || hom.get<2>() != x + y + 1 || hom.get<3>() != -x - 1) fail17("get", "homogeneous tuple order");
		int ord = frg::apply([&](int a, int b, int c_, int d) { return (a == x && b == y && c_ == x + y + 1 && d == -x - 1) ? 1 : 0; }, frg::tuple<int, int, int, int>(hom));
		if(ord != 1) fail17("apply", "apply(&&) argument order on a homogeneous tuple");
		ord = frg::apply([&](int a, int b, int c_, int d) { return (a == x && b == y && c_ == x + y + 1 && d == -x - 1) ? 1 : 0; }, (const frg::tuple<int, int, int, int> &)hom);
		if(ord != 1) fail17("apply", "apply(const&) argument order on a homogeneous tuple");
		auto hc = frg::tuple_cat(frg::make_tuple(x, y), frg::make_tuple(x + 2, y + 2), frg::make_tuple(7));
		if(hc.get<0>() != x || hc.get<1>() != y || hc.get<2>() != x + 2 || hc.get<3>() != y + 2 || hc.get<4>() != 7) fail17("tuple_cat", "tuple_cat order on homogeneous tuples");
		// default construction
		frg::tuple<int, Elem> dflt; if(dflt.get<1>().get() != 0) fail17("default", "default-constructed element");
		// eternal<Pod>: accessors return the held object (never destroyed by design; trivially destructible payload)
		frg::eternal<Pod> et(x, y);
		if(et.get().get() != x * 1000 + y || &et.get() != &*et || et.operator->() != &et.get()) fail17("eternal", "eternal accessors");
	}
	expect_no_elems("after the tuple battery");
	count("tuple_cases");
}

// unique_ptr<Base> owning an object of a derived class (an interface pointer owning its implementation): destruction goes through
// the virtual destructor, so the members the derived class adds die too; the block goes back through free(ptr)
struct PolyBase { Elem base_part; explicit PolyBase(int v) : base_part(v) {} virtual ~PolyBase() {} virtual int get() const { return base_part.get(); } };
struct PolyDerived : PolyBase { Elem extra, extra2; explicit PolyDerived(int v) : PolyBase(v), extra(v + 1), extra2(v + 2) {} int get() const override { return base_part.get() + extra.get() + extra2.get(); } };
static void polymorphic_owner_case(Rng &r) {
	g_elems.owner = "unique_ptr<Base>";
	AllocState as; as.owner = "unique_ptr<Base>";
	{
		TrackedAlloc al(&as);
		int v = (int)r.below(1000);
		auto mk = [&](int x) -> PolyBase * { void *m = al.allocate(sizeof(PolyDerived)); return new (m) PolyDerived(x); };
		frg::unique_ptr<PolyBase, TrackedAlloc> a(al, mk(v));
		if(a->get() != 3 * v + 3) fail17("poly", "unique_ptr<Base>: access through the base pointer");
		a.reset(mk(v + 10));                                   // the old implementation object dies completely
		frg::unique_ptr<PolyBase, TrackedAlloc> b(al, mk(v + 20));
		a = std::move(b);
		frg::unique_ptr<PolyBase, TrackedAlloc> c(std::move(a));
		if(c->get() != 3 * (v + 20) + 3) fail17("poly", "unique_ptr<Base>: value after move");
	}
	expect_no_elems("after destroying unique_ptr<Base> owners of derived objects (members added by the derived class must be destroyed through the virtual destructor)");
	expect_no_blocks(as, "after destroying unique_ptr<Base> owners");
	count("polymorphic_owner_cases");
}

// ---- owners whose source lives inside the value they currently own: the pop-front idiom `head = std::move(head->next)` on a singly
// linked list whose links are holders. The assignment destroys the old head node, and with it the (by then moved-from) source.
// Compared with the same script on the standard types; the nodes count themselves.
template<int Tag> struct LiveCount { static inline long live = 0; LiveCount() { live++; } LiveCount(const LiveCount &) { live++; } ~LiveCount() { live--; } };
struct ONodeF : LiveCount<1> { frg::optional<std::unique_ptr<ONodeF>> next; int value = 0; };
struct ONodeS : LiveCount<2> { std::optional<std::unique_ptr<ONodeS>> next; int value = 0; };
struct UNode : LiveCount<5> { frg::unique_ptr<UNode, TrackedAlloc> next; int value = 0; explicit UNode(TrackedAlloc a) : next(a) {} };
static void owner_inside_own_value_case(Rng &r) {
	auto diff = [&](const char *what, bool ok, const std::string &trace) { if(!ok) fail17("source-inside-own-value", std::string(what) + " disagrees with the standard type after [" + trace + " ]"); return ok; };
	// optional<unique_ptr<node>>
	{
		frg::optional<std::unique_ptr<ONodeF>> fh; std::optional<std::unique_ptr<ONodeS>> sh; std::string trace; long len = 0;
		for(int i = 0; i < 14; i++) {
			if(len == 0 || (len < 4 && r.chance(1, 2))) {
				auto fn = std::make_unique<ONodeF>(); fn->value = i; if(fh) fn->next = std::move(fh); fh = std::move(fn);
				auto sn = std::make_unique<ONodeS>(); sn->value = i; if(sh) sn->next = std::move(sh); sh = std::move(sn);
				len++; trace += " push";
			} else { fh = std::move((*fh)->next); sh = std::move((*sh)->next); len--; trace += " head=move(head->next)"; }
			if(!diff("optional<unique_ptr<node>> list", (bool)fh == sh.has_value() && LiveCount<1>::live == LiveCount<2>::live && (!fh || !sh || (*fh)->value == (*sh)->value), trace)) break;
		}
	}
	if(LiveCount<1>::live != 0 || LiveCount<2>::live != 0) { fail17("source-inside-own-value", strf("optional list: %ld frg-side and %ld std-side nodes alive after both lists were destroyed", LiveCount<1>::live, LiveCount<2>::live)); LiveCount<1>::live = LiveCount<2>::live = 0; }
	// (no variant list: with std::variant the same statement is undefined once the alternatives differ - libstdc++ destroys the old
	// alternative, and with it the source, before it reads the source - so there is no reference behaviour to compare with)
	// frg::unique_ptr<node> (reference: the length of the list the script describes)
	{
		AllocState as; as.owner = "unique_ptr list"; TrackedAlloc al(&as);
		{
			frg::unique_ptr<UNode, TrackedAlloc> head(al); long len = 0; std::string trace;
			for(int i = 0; i < 14; i++) {
				if(len == 0 || (len < 4 && r.chance(1, 2))) { auto n = frg::make_unique<UNode>(al, al); n->value = i; n->next = std::move(head); head = std::move(n); len++; trace += " push"; }
				else { head = std::move(head->next); len--; trace += " head=move(head->next)"; }
				if(LiveCount<5>::live != len || (bool)head != (len > 0)) {
					std::string msg = strf("frg::unique_ptr list of %ld nodes: %ld nodes alive, head %s after [%s ]", len, LiveCount<5>::live, head ? "set" : "null", trace.c_str());
					if(g_lifetime_armed) violation("C16:lifetime:unique_ptr:source-inside-own-value", msg); else count("unarmed:lifetime:unique_ptr:source-inside-own-value");
					break;
				}
			}
		}
		if(LiveCount<5>::live != 0) { if(g_lifetime_armed) violation("C16:lifetime:unique_ptr:source-inside-own-value:leak", strf("%ld list nodes still alive after the frg::unique_ptr that owned the list was destroyed", LiveCount<5>::live)); LiveCount<5>::live = 0; as.live.clear(); }
		else expect_no_blocks(as, "after destroying a frg::unique_ptr list");
	}
	count("owner_inside_own_value_cases");
}

// allocation.hpp helpers: construct / construct_n pair allocate(sizeof(T) [* n]) with destruct / destruct_n (deallocate with the same size)
static void alloc_helpers_case(Rng &r) {
	g_elems.owner = "allocation-helpers";
	AllocState as; as.owner = "allocation-helpers";
	{
		TrackedAlloc al(&as);
		int v = (int)r.below(1000);
		Elem *one = frg::construct<Elem>(al, v);
		if(one->get() != v) fail17("construct", "frg::construct value");
		Elem *two = frg::construct<Elem>(al, v / 1000, v % 1000);
		size_t n = r.below(9);
		Elem *many = frg::construct_n<Elem>(al, n, 7);
		for(size_t i = 0; i < n; i++) if(many[i].get() != 7) fail17("construct_n", "frg::construct_n element value");
		if(as.live.size() != 3) fail17("construct", "construct/construct_n must allocate exactly one block each");
		frg::destruct(al, one);
		frg::destruct(al, two);
		frg::destruct_n(al, many, n);
		frg::destruct(al, (Elem *)nullptr);
		frg::destruct_n(al, (Elem *)nullptr, 3);
	}
	expect_no_elems("after destruct/destruct_n");
	expect_no_blocks(as, "after destruct/destruct_n");
	count("alloc_helper_cases");
}

// expected<E, void>
// ---- overloads that the operation sequences do not reach: construction from a const lvalue and from another type, comparisons with
// the value on the left, value() on a const rvalue, FRG_TRY on an expected without a value
static frg::expected<Err, int> try_void_helper(frg::expected<Err> in, int v) { FRG_TRY(in); return v; }
static void optional_surface_case(Rng &r) {
	int v = (int)r.below(1000), w = (int)r.below(1000);
	g_elems.owner = "optional-surface";
	{
		const Elem ce(v);
		frg::optional<Elem> o(ce); std::optional<int> so(v);
		if(!o || o->get() != v || ce.get() != v) fail17("optional-surface", "optional<Elem>(const Elem &) does not hold a copy of its source (or changed the source)");
		const frg::optional<Elem> co(ce);
		if(std::move(co).value().get() != v || (*co).get() != v) fail17("optional-surface", "value() on a const rvalue optional");
		frg::optional<long> ol(v); std::optional<long> sl(v);                // converting construction from int
		if(!ol || *ol != (long)v) fail17("optional-surface", "optional<long>(int)");
		frg::optional<Elem> oe(w);                                           // converting construction through Elem(int)
		if(!oe || oe->get() != w) fail17("optional-surface", "optional<Elem>(int)");
		frg::optional<int> fe, ff(v); std::optional<int> se, sf(v);
		for(int x : {v - 1, v, v + 1}) {
			if((x != ff) != (x != sf) || (x != fe) != (x != se)) fail17("optional-surface", strf("%d != optional disagrees with std::optional (engaged value %d)", x, v));
			if((x < ff) != (x < sf) || (x < fe) != (x < se)) fail17("optional-surface", strf("%d < optional disagrees with std::optional (engaged value %d)", x, v));
			if((x == ff) != (x == sf) || (x == fe) != (x == se)) fail17("optional-surface", strf("%d == optional disagrees with std::optional (engaged value %d)", x, v));
			if((ff < x) != (sf < x) || (fe < x) != (se < x) || (ff != x) != (sf != x) || (fe != x) != (se != x)) fail17("optional-surface", strf("optional </!= %d disagrees with std::optional (engaged value %d)", x, v));
		}
	}
	expect_no_elems("after the optional overload battery");
	auto ok = try_void_helper(frg::expected<Err>(frg::success), v);
	auto bad = try_void_helper(frg::expected<Err>(Err::e2), v);
	if(!ok || ok.value() != v || bad || bad.error() != Err::e2) fail17("expected-void", "FRG_TRY on an expected without a value");
	count("optional_surface_cases");
}

static void expected_void_case() {
	using X = frg::expected<Err>;
	X a; X b(frg::success); X e(Err::e2);
	if(!a || !b || e) fail17("expected-void", "state");
	if(a.maybe_error() != Err::ok || e.maybe_error() != Err::e2 || e.error() != Err::e2) fail17("expected-void", "error");
	a.unwrap();
	auto m = e.map_error([](Err x) { return (Err2)((int)x + 10); });
	if(m || (int)m.error() != 12) fail17("expected-void", "map_error");
	auto m2 = a.map_error([](Err x) { return (Err2)((int)x + 10); });
	if(!m2) fail17("expected-void", "map_error on success");
	X c(e); X d(std::move(b)); if(c || !d) fail17("expected-void", "copy/move");
	c = a; if(!c) fail17("expected-void", "assign");
	count("expected_void_cases");
}


// ------------------------------------------------------------------ differential battery with an element type whose *assignment* is
// observable but whose construction/destruction is trivial: a holder that replaces "assign the held object" by a bytewise copy
// (or by destroy + construct) keeps (engaged, value) right and is caught only by what operator= leaves behind.
struct Sticky {
	int id = 0, v = 0, writes = 0; // id: identity given at construction, kept by assignment; writes: number of assignments received
	Sticky() = default;
	Sticky(int id_, int v_) : id(id_), v(v_) {}
	Sticky(const Sticky &) = default;
	Sticky(Sticky &&) = default;
	~Sticky() = default;
	Sticky &operator=(const Sticky &o) { v = o.v; writes++; return *this; }
	Sticky &operator=(Sticky &&o) { v = o.v; writes++; return *this; } // (copy and move assignment are indistinguishable on purpose: which of the two a holder uses for an lvalue source is its business)
	bool operator==(const Sticky &o) const { return id == o.id && v == o.v && writes == o.writes; }
};
static_assert(std::is_trivially_copy_constructible_v<Sticky> && std::is_trivially_destructible_v<Sticky> && !std::is_trivially_copy_assignable_v<Sticky>);

// which constructor an in-place construction selects: std::optional/std::variant direct-initialise (T(args...)); an element type
// with an initializer_list constructor tells list-initialisation apart
struct InitProbe {
	int how, a, b;
	InitProbe(std::initializer_list<int> l) : how(1), a(l.size() > 0 ? *l.begin() : -1), b(l.size() > 1 ? *(l.begin() + 1) : -1) {}
	InitProbe(int x, int y) : how(2), a(x), b(y) {}
	explicit InitProbe(int x) : how(3), a(x), b(0) {}
	bool operator==(const InitProbe &o) const { return how == o.how && a == o.a && b == o.b; }
};
// ---- a manual_box with static storage duration, first used while other namespace-scope objects are still being constructed
// (what manual_box is for: a global service object that is set up by hand). Its default constructor is constexpr, so like
// std::optional it is constant-initialised: an initialize() issued from the constructor of an *earlier* global must stick.
struct EarlyPayload { int v; long pad[3]; explicit EarlyPayload(int x) : v(x), pad{x, x + 1, x + 2} {} };
extern frg::manual_box<EarlyPayload> g_early_box;
extern std::optional<EarlyPayload> g_early_ref;
extern frg::manual_box<long> g_early_box_l;
extern std::optional<long> g_early_ref_l;
static struct EarlyUser { EarlyUser() { g_early_box.initialize(41); g_early_ref.emplace(41); g_early_box_l.initialize(-7); g_early_ref_l.emplace(-7); } } g_early_user;
frg::manual_box<EarlyPayload> g_early_box;
std::optional<EarlyPayload> g_early_ref;
frg::manual_box<long> g_early_box_l;
std::optional<long> g_early_ref_l;
static void static_init_case() {
	if(g_early_box.valid() != g_early_ref.has_value())
		return fail17("manual_box-static-init", strf("a namespace-scope manual_box initialised from the constructor of an earlier global reports valid()=%d in main (std::optional used the same way: %d)", (int)g_early_box.valid(), (int)g_early_ref.has_value()));
	if(g_early_box_l.valid() != g_early_ref_l.has_value())
		return fail17("manual_box-static-init", "a namespace-scope manual_box<long> initialised from the constructor of an earlier global lost its state");
	if(g_early_box->v != g_early_ref->v || g_early_box->pad[2] != g_early_ref->pad[2] || *g_early_box_l != *g_early_ref_l)
		return fail17("manual_box-static-init", "a namespace-scope manual_box initialised from the constructor of an earlier global holds another value in main");
	count("manual_boxes_initialised_during_static_initialisation_and_read_in_main", 2);
}

static void init_form_case(Rng &r) {
	int x = (int)r.below(1000), y = (int)r.below(1000);
	auto diff = [&](const char *what, const InitProbe &f, const InitProbe &s) {
		if(!(f == s)) fail17("init-form", strf("%s(%d, %d) holds a value built by constructor %d holding (%d, %d); the standard type holds one built by constructor %d holding (%d, %d)", what, x, y, f.how, f.a, f.b, s.how, s.a, s.b));
	};
	{ frg::optional<InitProbe> f; std::optional<InitProbe> s; f.emplace(x, y); s.emplace(x, y); diff("optional::emplace", *f, *s); f.emplace(x); s.emplace(x); diff("optional::emplace(one argument)", *f, *s); }
	{ frg::variant<int, InitProbe> f; std::variant<std::monostate, int, InitProbe> s; f.emplace<InitProbe>(x, y); s.emplace<2>(x, y); diff("variant::emplace<T>", f.get<InitProbe>(), std::get<2>(s)); }
	{ frg::manual_box<InitProbe> f; std::optional<InitProbe> s; f.initialize(x, y); s.emplace(x, y); diff("manual_box::initialize", *f, *s); f.destruct(); f.initialize(x); s.emplace(x); diff("manual_box::initialize(one argument)", *f, *s); f.destruct(); }
	count("init_form_cases");
}

static void sticky_case(Rng &r, std::string &trace) {
	frg::optional<Sticky> fa, fb; std::optional<Sticky> sa, sb;
	using FV = frg::variant<int, Sticky>; using SV = std::variant<std::monostate, int, Sticky>;
	FV va, vb; SV wa, wb;
	int next = 1;
	auto same_opt = [&](frg::optional<Sticky> &f, const std::optional<Sticky> &s, const char *which) {
		if((bool)f != s.has_value()) return fail17("sticky:optional-state", strf("%s engaged=%d, std::optional says %d after [%s]", which, (int)(bool)f, (int)s.has_value(), trace.c_str()));
		if(f && !(*f == *s)) fail17("sticky:optional-value", strf("%s holds {id=%d v=%d writes=%d}, std::optional holds {id=%d v=%d writes=%d} after [%s]", which, f->id, f->v, f->writes, s->id, s->v, s->writes, trace.c_str()));
	};
	auto same_var = [&](FV &f, const SV &s, const char *which) {
		int ft = !f ? 0 : f.is<int>() ? 1 : 2;
		if(ft != (int)s.index()) return fail17("sticky:variant-state", strf("%s alternative %d, std::variant says %zu after [%s]", which, ft, s.index(), trace.c_str()));
		if(ft == 1 && f.get<int>() != std::get<1>(s)) fail17("sticky:variant-value", strf("%s int value after [%s]", which, trace.c_str()));
		if(ft == 2 && !(f.get<Sticky>() == std::get<2>(s))) { auto &x = f.get<Sticky>(); auto &y = std::get<2>(s); fail17("sticky:variant-value", strf("%s holds {id=%d v=%d writes=%d}, std::variant holds {id=%d v=%d writes=%d} after [%s]", which, x.id, x.v, x.writes, y.id, y.v, y.writes, trace.c_str())); }
	};
	for(size_t k = 2 + r.below(10); k && rec.violations.empty(); k--) {
		int op = r.below(16);
		switch(op) {
		case 0: fa = fb; sa = sb; trace += "a=b "; break;
		case 1: fb = fa; sb = sa; trace += "b=a "; break;
		case 2: { Sticky t(next, next * 7); next++; fa = t; sa = t; trace += "a=T "; break; }
		case 3: { Sticky t(next, next * 7); next++; fb = t; sb = t; trace += "b=T "; break; }
		case 4: fa = frg::null_opt; sa.reset(); trace += "a=null "; break;
		case 5: fa.emplace(next, next * 3); sa.emplace(next, next * 3); next++; trace += "a.emplace "; break;
		case 6: { auto &fr = fa; fa = fr; auto &sr = sa; sa = sr; trace += "a=a "; break; }
		case 7: if(fa) { Sticky t(next, next * 5); next++; *fa = t; *sa = t; trace += "*a=T "; } break;
		case 8: { frg::optional<Sticky> fc(fb); std::optional<Sticky> sc(sb); fa = fc; sa = sc; trace += "a=copy(b) "; break; }
		case 9: { frg::optional<Sticky> fc(fb); std::optional<Sticky> sc(sb); fa = std::move(fc); sa = std::move(sc); trace += "a=move(copy(b)) "; break; }
		case 10: va = vb; wa = wb; trace += "va=vb "; break;
		case 11: { Sticky t(next, next * 11); next++; va = t; if(wa.index() == 2) std::get<2>(wa) = std::move(t); else wa.emplace<2>(t); trace += "va=Sticky "; break; } // frg: variant(T) temporary, then same-alternative assignment = move assignment
		case 12: vb.emplace<Sticky>(next, next * 2); wb.emplace<2>(next, next * 2); next++; trace += "vb.emplace<Sticky> "; break;
		case 13: va.emplace<int>(next); wa.emplace<1>(next); next++; trace += "va.emplace<int> "; break;
		case 14: vb = va; wb = wa; trace += "vb=va "; break;
		case 15: va = FV(); wa.emplace<0>(); trace += "va=empty "; break;
		}
		same_opt(fa, sa, "a"); same_opt(fb, sb, "b");
		same_var(va, wa, "va"); same_var(vb, wb, "vb");
	}
	count("sticky_histories");
}

int main(int argc, char **argv) {
	parse_args(argc, argv, "c17_holders");
	if(opt.replay_arg.find("prop=C16") != std::string::npos) g_prop = "C16";
	g_lifetime_armed = (g_prop == "C16");
	g_seq_model_armed = (g_prop == "C17");
	g_seq_prop = "C17";
	rec.rule = "a case is one operation sequence on a pair (a,b) of holders of one type, compared with a (state,value) model after every operation, registries checked after destruction; "
		"or one tuple battery on random values; distinct = hash of (type, op codes, parameter classes)";
	bool t = opt.thorough();
	seq_run_type<OptAdapter<int>>("optional<int>", t ? 5 : 4, scaled(200, 5000), 50, g_prop);
	seq_run_type<OptAdapter<Elem>>("optional<Elem>", t ? 5 : 4, scaled(300, 10000), 50, g_prop);
	seq_run_type<OptAdapter<ElemMoveOnly>>("optional<MoveOnly>", t ? 4 : 3, scaled(200, 5000), 50, g_prop);
	seq_run_type<OptAdapter<ElemCopyOnly>>("optional<CopyOnly>", t ? 4 : 3, scaled(200, 5000), 50, g_prop);
	seq_run_type<OptAdapter<long>>("optional<long>", 3, scaled(100, 2000), 50, g_prop);
	seq_run_type<VarAdapter>("variant<int,Elem,ElemB>", t ? 5 : 4, scaled(400, 15000), 50, g_prop);
	seq_run_type<ExpAdapter<int>>("expected<Err,int>", t ? 5 : 4, scaled(200, 5000), 50, g_prop);
	seq_run_type<ExpAdapter<Elem>>("expected<Err,Elem>", t ? 5 : 4, scaled(300, 10000), 50, g_prop);
	seq_run_type<ExpAdapter<ElemMoveOnly>>("expected<Err,MoveOnly>", t ? 4 : 3, scaled(200, 5000), 50, g_prop);
	seq_run_type<BoxAdapter>("manual_box<Elem>", t ? 8 : 6, scaled(200, 5000), 50, g_prop);
	seq_run_type<UPtrAdapter>("unique_ptr<Elem>", t ? 6 : 5, scaled(300, 10000), 50, g_prop);
	seq_run_type<UMemAdapter>("unique_memory", t ? 7 : 6, scaled(200, 5000), 50, g_prop);
	if(want_mode("static-init") && want_case(0)) { begin_case("static-init", 0); guarded(g_prop.c_str(), [&] { static_init_case(); }); note_distinct(mix(79, 1)); }
	if(want_mode("sticky")) {
		Rng r(derive_seed("sticky"));
		uint64_t n = scaled(20000, 1000000);
		for(uint64_t i = 0; i < n; i++) {
			if(!want_case(i)) { r.next(); continue; }
			begin_case("sticky", i);
			Rng rr(r.next()); std::string trace;
			guarded(g_prop.c_str(), [&] { sticky_case(rr, trace); if(i % 64 == 0) init_form_case(rr); });
			if(!rec.violations.empty()) break;
			note_distinct(mix(78, hash_str(trace)));
		}
		sample("sticky: frg::optional<Sticky> / frg::variant<int,Sticky> vs std::optional / std::variant on random histories; Sticky has trivial constructors and destructor but an assignment that keeps its identity and counts");
	}
	if(want_mode("tuple")) {
		Rng r(derive_seed("tuple"));
		uint64_t n = scaled(300, 20000);
		for(uint64_t i = 0; i < n; i++) {
			if(!want_case(i)) { r.next(); continue; }
			begin_case("tuple", i);
			Rng rr(r.next());
			guarded(g_prop.c_str(), [&] { tuple_case(rr); alloc_helpers_case(rr); polymorphic_owner_case(rr); owner_inside_own_value_case(rr); optional_surface_case(rr); });
			note_distinct(mix(77, rr.s[1]));
		}
		begin_case("tuple", n);
		guarded(g_prop.c_str(), [&] { expected_void_case(); });
		sample("tuple battery: tuple<int,Elem,long> get/const get/copy/move/converting ctor/make_tuple/apply(const&,&&)/tuple_cat(3 tuples, lvalue)/tuple<int&,Elem&,const long&> identity; eternal<Pod>; expected<Err,void>");
	}
	return finish();
}
