// C14 (and the hash_map part of C16): frg::hash_map vs std::unordered_map after every operation,
// for well-spread, constant, low-entropy and capacity-adversarial hash functions; values are Elem (observable
// default construction / lifetime) or int; nodes and tables come from TrackedAlloc (exact-size blocks).
#include "common/verif.hpp"
#include "common/track.hpp"
#include <frg/hash_map.hpp>
#include <unordered_map>
#include <map>
#include <set>
#include <string_view>
#include <algorithm>

using namespace verif;

static std::string g_prop = "C14";
static bool g_model_armed = true;

struct HIdentity { unsigned operator()(uint64_t k) const { return (unsigned)k; } static constexpr const char *name = "identity"; };
struct HConst { unsigned operator()(uint64_t) const { return 0; } static constexpr const char *name = "const0"; };
struct HLow { unsigned operator()(uint64_t k) const { return (unsigned)(k & 3); } static constexpr const char *name = "k&3"; };
struct HFrg { unsigned operator()(uint64_t k) const { return frg::hash<uint64_t>()(k); } static constexpr const char *name = "frg::hash"; };
struct HMult { unsigned operator()(uint64_t k) const { return (unsigned)(k * 10240u); } static constexpr const char *name = "k*10240"; }; // multiple of 10*2^j, j<=10
struct HHigh { unsigned operator()(uint64_t k) const { return 0x80000000u | (unsigned)(k * 2654435761u); } static constexpr const char *name = "highbit"; }; // (unsigned) -> negative as int

struct HWide { uint64_t operator()(uint64_t k) const { return (k + 1) * 0x9E3779B97F4A7C15ull; } static constexpr const char *name = "64-bit"; }; // a hash wider than unsigned int: every path must reduce it the same way
struct HSigned { int operator()(uint64_t k) const { return -(int)(k % 1000) - 1; } static constexpr const char *name = "negative-int"; };

// a hash functor with state: the map has to use the functor object it was given for every operation, also when it grows
struct HSeeded { uint64_t seed = 0; HSeeded() = default; explicit HSeeded(uint64_t s) : seed(s) {} unsigned operator()(uint64_t k) const { return (unsigned)(((k ^ seed) * 0x9E3779B97F4A7C15ull) >> 29); } static constexpr const char *name = "seeded(stateful)"; };
template<typename H> static H make_hasher() { if constexpr (std::is_same_v<H, HSeeded>) return HSeeded(0x5DEECE66Dull); else return H(); }

struct Ctx {
	std::string type, trace;
	bool bad = false;
	void op(const std::string &s) { if(trace.size() < 1500) { trace += ' '; trace += s; } else if(trace.back() != '.') trace += " ..."; }
	void fail(const std::string &kind, const std::string &msg) {
		if(bad) return; bad = true;
		count("model_mismatches_flagged");
		if(g_model_armed) violation("C14:model:hash_map:" + kind, type + " after [" + trace + " ]: " + msg);
		else count("unarmed:model:" + kind);
	}
};

template<typename V> static int vget(const V &v) { if constexpr (std::is_same_v<V, int>) return v; else return v.get(); }
template<typename V> static V vmake(int x) { if constexpr (std::is_same_v<V, int>) return x; else return V(x); }

template<typename H, typename V>
struct Harness {
	using Map = frg::hash_map<uint64_t, V, H, TrackedAlloc>;
	AllocState as;
	Map *m;
	std::unordered_map<uint64_t, int> ref;
	std::vector<uint64_t> universe;
	Ctx &c;
	int next = 1;
	size_t max_size_seen = 0;

	Harness(Ctx &c_, std::vector<uint64_t> uni) : universe(std::move(uni)), c(c_) { as.owner = "hash_map"; g_elems.owner = "hash_map"; m = new Map(make_hasher<H>(), TrackedAlloc(&as)); }
	~Harness() { delete m; }
	void destroy() { delete m; m = nullptr; }

	void probe(uint64_t k) {
		if(c.bad) return;
		auto it = ref.find(k);
		V *g = m->template get<uint64_t>(k);
		if(it == ref.end()) {
			if(g) return c.fail("get-absent", strf("get(%llu) found a value for an absent key", (unsigned long long)k));
			if(m->find(k) != m->end()) return c.fail("find-absent", strf("find(%llu) != end() for an absent key", (unsigned long long)k));
			const Map &cm = *m;
			if(!(cm.find(k) == cm.end())) return c.fail("find-absent", "const find of an absent key");
		} else {
			if(!g) return c.fail("get-present", strf("get(%llu) = null but the key is present (size %zu)", (unsigned long long)k, ref.size()));
			if(vget(*g) != it->second) return c.fail("get-value", strf("get(%llu) value %d expected %d", (unsigned long long)k, vget(*g), it->second));
			auto f = m->find(k);
			if(f == m->end() || !f) return c.fail("find-present", strf("find(%llu) = end() but the key is present", (unsigned long long)k));
			if(f->template get<0>() != k || vget(f->template get<1>()) != it->second || &f->template get<1>() != g) return c.fail("find-value", "find() entry differs from get()");
			const Map &cm = *m;
			auto cf = cm.find(k);
			if(cf == cm.end() || (*cf).template get<0>() != k) return c.fail("find-present", "const find of a present key");
		}
	}
	void check_all(bool full) {
		if(c.bad) return;
		if(m->size() != ref.size()) return c.fail("size", strf("size()=%zu expected %zu", m->size(), ref.size()));
		if(m->empty() != ref.empty()) return c.fail("empty", "empty()");
		max_size_seen = std::max(max_size_seen, ref.size());
		if(full || universe.size() <= 48) { for(uint64_t k : universe) probe(k); }
		if(full) {
			// iteration: every entry exactly once
			std::map<uint64_t, int> seen;
			size_t steps = 0;
			for(auto it = m->begin(); it != m->end(); ++it) {
				if(++steps > ref.size() + 5) return c.fail("iter", "iteration yields more entries than size()");
				uint64_t k = it->template get<0>();
				if(seen.count(k)) return c.fail("iter-dup", strf("iteration yields key %llu twice", (unsigned long long)k));
				seen[k] = vget((*it).template get<1>());
				// lookups from inside the loop body (the entry just visited, a neighbour in key order, the first and the last key) are
				// reads: they must not disturb the walk (keys: the current one, some present key, the smallest and largest visited so far)
				if(lookups_during_iteration) {
					for(uint64_t q : {k, ref.begin()->first, seen.begin()->first, seen.rbegin()->first}) {
						switch((steps + q) % 3) { case 0: { auto g = m->get(q); if(!g || vget(*g) != ref[q]) return c.fail("get-present", "get() from inside an iteration loop"); break; }
						case 1: { auto f = m->find(q); if(f == m->end()) return c.fail("find-present", "find() from inside an iteration loop"); break; }
						default: { if(vget((*m)[q]) != ref[q]) return c.fail("index-present", "operator[] on a present key from inside an iteration loop"); break; } }
					}
				}
			}
			if(lookups_during_iteration) count("iterations_with_lookups_inside_the_loop");
			lookups_during_iteration = !lookups_during_iteration;
			if(seen.size() != ref.size()) return c.fail("iter-missing", strf("iteration yields %zu entries, map has %zu", seen.size(), ref.size()));
			for(auto &kv : ref) { auto s = seen.find(kv.first); if(s == seen.end() || s->second != kv.second) return c.fail("iter-missing", strf("iteration misses or misreports key %llu", (unsigned long long)kv.first)); }
			if(ref.empty() && m->begin() != m->end()) return c.fail("iter", "begin()!=end() on an empty map");
		}
	}
	bool lookups_during_iteration = false;
	uint64_t absent_key(Rng &r) { for(int t = 0; t < 64; t++) { uint64_t k = universe[r.below(universe.size())]; if(!ref.count(k)) return k; } for(uint64_t k : universe) if(!ref.count(k)) return k; return ~0ull; }
	uint64_t present_key(Rng &r) { if(ref.empty()) return ~0ull; size_t n = r.below(std::min<size_t>(ref.size(), 16)); auto it = ref.begin(); std::advance(it, n); return it->first; }

	void do_op(int op, Rng &r) {
		switch(op) {
		case 0: { uint64_t k = absent_key(r); if(k == ~0ull) break; V v = vmake<V>(next); m->insert(k, v); ref[k] = next++; c.op(strf("insert(%llu)", (unsigned long long)k)); probe(k); break; }
		case 1: { uint64_t k = absent_key(r); if(k == ~0ull) break; m->insert(k, vmake<V>(next)); ref[k] = next++; c.op(strf("insert&&(%llu)", (unsigned long long)k)); probe(k); break; }
		case 2: { // operator[] on an absent key: default value created exactly once
			uint64_t k = absent_key(r); if(k == ~0ull) break;
			uint64_t d0 = g_elems.default_ctors; size_t s0 = m->size();
			V &v = (*m)[k];
			c.op(strf("[](%llu absent)", (unsigned long long)k));
			if(m->size() != s0 + 1) { c.fail("op[]-size", strf("operator[] on an absent key changed size from %zu to %zu", s0, m->size())); break; }
			if constexpr (!std::is_same_v<V, int>) { if(g_elems.default_ctors - d0 != 1) { c.fail("op[]-default-once", strf("operator[] on an absent key default-constructed %llu values", (unsigned long long)(g_elems.default_ctors - d0))); break; } }
			if(vget(v) != 0) { c.fail("op[]-default", "operator[] on an absent key did not yield a default value"); break; }
			ref[k] = 0;
			V *g = m->template get<uint64_t>(k);
			if(g != &v) { c.fail("op[]-lookup-after-insert", strf("the value created by operator[](%llu) is not the one get() finds (size now %zu)", (unsigned long long)k, m->size())); break; }
			if(r.chance(1, 2)) { v = vmake<V>(next); ref[k] = next++; }
			probe(k); break; }
		case 3: { // operator[] on a present key: existing value, nothing created
			uint64_t k = present_key(r); if(k == ~0ull) break;
			uint64_t d0 = g_elems.default_ctors; size_t s0 = m->size();
			V &v = (*m)[k];
			c.op(strf("[](%llu present)", (unsigned long long)k));
			if(m->size() != s0) { c.fail("op[]-size", "operator[] on a present key changed size()"); break; }
			if constexpr (!std::is_same_v<V, int>) { if(g_elems.default_ctors != d0) { c.fail("op[]-default-once", "operator[] on a present key default-constructed a value"); break; } }
			if(vget(v) != ref[k]) { c.fail("op[]-value", strf("operator[](%llu) value %d expected %d", (unsigned long long)k, vget(v), ref[k])); break; }
			v = vmake<V>(next); ref[k] = next++;
			probe(k); break; }
		case 4: { uint64_t k = present_key(r); if(k == ~0ull) break;
			auto res = m->remove(k);
			c.op(strf("remove(%llu)", (unsigned long long)k));
			if(!res) { c.fail("remove-present", strf("remove(%llu) returned nothing for a present key", (unsigned long long)k)); break; }
			if(vget(*res) != ref[k]) { c.fail("remove-value", strf("remove(%llu) returned %d expected %d", (unsigned long long)k, vget(*res), ref[k])); break; }
			ref.erase(k); probe(k); break; }
		case 5: { uint64_t k = absent_key(r); if(k == ~0ull) break; auto res = m->remove(k); c.op(strf("remove(%llu absent)", (unsigned long long)k)); if(res) c.fail("remove-absent", "remove of an absent key returned a value"); break; }
		case 6: { for(int i = 0; i < 4; i++) probe(universe[r.below(universe.size())]); break; }
		case 7: { // drain completely, then the map must work again (emptied and refilled)
			if(ref.size() > 400) break;
			c.op("drain");
			while(!ref.empty()) { uint64_t k = ref.begin()->first; auto res = m->remove(k); if(!res || vget(*res) != ref[k]) { c.fail("remove-value", "remove during drain"); return; } ref.erase(k); }
			break; }
		}
	}
};

template<typename H, typename V>
static void run_case(const char *mode, long long idx, uint64_t cs, size_t universe_size, unsigned nops, int style) {
	begin_case(mode, idx);
	Ctx c; c.type = strf("hash_map<u64,%s,%s>", std::is_same_v<V, int> ? "int" : "Elem", H::name);
	Rng r(cs);
	std::vector<uint64_t> uni;
	for(size_t i = 0; i < universe_size; i++) uni.push_back(style == 1 ? i : style == 2 ? i * 10 : (r.next() >> (r.chance(1, 2) ? 0 : 40)));
	std::sort(uni.begin(), uni.end()); uni.erase(std::unique(uni.begin(), uni.end()), uni.end());
	{
		Harness<H, V> h(c, uni);
		guarded(g_prop.c_str(), [&] {
			h.check_all(true);
			int phase = 0;
			for(unsigned i = 0; i < nops && !c.bad; i++) {
				if(i % 64 == 0) phase = r.below(4);
				int op;
				// growth via insert, growth via operator[], shrink, uniform
				if(phase == 0) op = r.chance(3, 4) ? (int)r.below(2) : (int)r.below(8);
				else if(phase == 1) op = r.chance(3, 4) ? 2 : (int)r.below(8);
				else if(phase == 2) op = r.chance(3, 4) ? 4 : (int)r.below(8);
				else op = r.below(8);
				h.do_op(op, r);
				h.check_all(universe_size > 4000 ? (i % 1024 == 1023) : (i % 32 == 31 || universe_size <= 16)); // (a full check probes the whole universe and iterates the map)
			}
			h.check_all(true);
		});
		if(c.bad) case_detail("%s", c.trace.substr(0, 3000).c_str());
		count("max_map_size", 0);
		if(h.max_size_seen > rec.counters["max_map_size_seen"]) rec.counters["max_map_size_seen"] = h.max_size_seen;
		if(h.max_size_seen >= 11) count("cases_crossing_first_rehash");
		if(h.max_size_seen >= 41) count("cases_crossing_third_rehash");
		// the Harness destructor destroys the map; registries are checked right after
		h.destroy();
		expect_no_elems("after destroying the hash_map");
		expect_no_blocks(h.as, "after destroying the hash_map");
	}
	if(idx == 0) sample(c.type + ":" + c.trace.substr(0, 300), 30);
}

// initializer-list constructor
// an allocator handle whose moved-from state is dead (a move-only pool handle, a handle whose move constructor nulls the source):
// the map takes its allocator by value and moves it into place, afterwards only the stored one may be used
struct MovedFromDeadAlloc {
	AllocState *st; bool dead = false;
	explicit MovedFromDeadAlloc(AllocState *s) : st(s) {}
	MovedFromDeadAlloc(const MovedFromDeadAlloc &) = default;
	MovedFromDeadAlloc(MovedFromDeadAlloc &&o) : st(o.st), dead(o.dead) { o.dead = true; }
	MovedFromDeadAlloc &operator=(const MovedFromDeadAlloc &) = default;
	MovedFromDeadAlloc &operator=(MovedFromDeadAlloc &&o) { st = o.st; dead = o.dead; o.dead = true; return *this; }
	void check(const char *what) { if(dead) violation("C14:model:hash_map:moved-from-allocator", std::string("hash_map called ") + what + " on an allocator object it had already moved from"); }
	void *allocate(size_t n) { check("allocate()"); return TrackedAlloc(st).allocate(n); }
	void free(void *p) { check("free()"); TrackedAlloc(st).free(p); }
	void deallocate(void *p, size_t n) { check("deallocate()"); TrackedAlloc(st).deallocate(p, n); }
};
static void moved_from_allocator_case() {
	begin_case("init-list", 1);
	for(size_t n : {0, 1, 9, 10, 11, 12, 13, 40, 100}) {
		Ctx c; c.type = strf("hash_map(init-list of %zu, allocator with a dead moved-from state)", n);
		AllocState as; as.owner = "hash_map";
		{
			using Map = frg::hash_map<uint64_t, int, HIdentity, MovedFromDeadAlloc>;
			std::vector<typename Map::entry_type> ents; for(size_t i = 0; i < n; i++) ents.push_back({(uint64_t)(i * 7 + 1), (int)i});
			// (an initializer_list cannot be built from a run-time size: the two sizes around the reservation threshold are spelt out, the others go through inserts)
			if(n == 12) { Map m(HIdentity(), {{1ull, 0}, {8ull, 1}, {15ull, 2}, {22ull, 3}, {29ull, 4}, {36ull, 5}, {43ull, 6}, {50ull, 7}, {57ull, 8}, {64ull, 9}, {71ull, 10}, {78ull, 11}}, MovedFromDeadAlloc(&as));
				for(size_t i = 0; i < n; i++) { int *g = m.get((uint64_t)(i * 7 + 1)); if(!g || *g != (int)i) c.fail("get-present", "initializer-list map lost a key"); } m.insert(1000, 5); if(!m.get((uint64_t)1000)) c.fail("get-present", "insert after initializer-list construction"); }
			else if(n == 10) { Map m(HIdentity(), {{1ull, 0}, {8ull, 1}, {15ull, 2}, {22ull, 3}, {29ull, 4}, {36ull, 5}, {43ull, 6}, {50ull, 7}, {57ull, 8}, {64ull, 9}}, MovedFromDeadAlloc(&as));
				for(size_t i = 0; i < n; i++) { int *g = m.get((uint64_t)(i * 7 + 1)); if(!g || *g != (int)i) c.fail("get-present", "initializer-list map lost a key"); } }
			else if(n == 40) { Map m(HIdentity(), {{1ull,0},{8ull,1},{15ull,2},{22ull,3},{29ull,4},{36ull,5},{43ull,6},{50ull,7},{57ull,8},{64ull,9},{71ull,10},{78ull,11},{85ull,12},{92ull,13},{99ull,14},{106ull,15},{113ull,16},{120ull,17},{127ull,18},{134ull,19},
				{141ull,20},{148ull,21},{155ull,22},{162ull,23},{169ull,24},{176ull,25},{183ull,26},{190ull,27},{197ull,28},{204ull,29},{211ull,30},{218ull,31},{225ull,32},{232ull,33},{239ull,34},{246ull,35},{253ull,36},{260ull,37},{267ull,38},{274ull,39}}, MovedFromDeadAlloc(&as));
				for(size_t i = 0; i < n; i++) { int *g = m.get((uint64_t)(i * 7 + 1)); if(!g || *g != (int)i) c.fail("get-present", "initializer-list map lost a key"); } for(size_t i = 0; i < n; i += 2) m.remove((uint64_t)(i * 7 + 1)); if(m.size() != n / 2) c.fail("size", "size after removing every other key"); }
			else { Map m{HIdentity{}, MovedFromDeadAlloc{&as}}; for(auto &e : ents) m.insert(e.template get<0>(), e.template get<1>()); for(size_t i = 0; i < n; i++) { int *g = m.get((uint64_t)(i * 7 + 1)); if(!g || *g != (int)i) c.fail("get-present", "map lost a key"); } }
		}
		expect_no_blocks(as, "after destroying a map whose allocator has a dead moved-from state");
		count("moved_from_allocator_cases");
	}
}

template<typename H>
static void init_list_case() {
	begin_case("init-list", 0);
	Ctx c; c.type = std::string("hash_map(init-list,") + H::name + ")";
	AllocState as; as.owner = "hash_map";
	{
		using Map = frg::hash_map<uint64_t, int, H, TrackedAlloc>;
		Map m(H(), {{1ull, 10}, {2ull, 20}, {33ull, 30}, {64ull, 40}, {5ull, 50}, {6ull, 60}, {7ull, 70}, {8ull, 80}, {9ull, 90}, {10ull, 100}, {11ull, 110}, {12ull, 120}}, TrackedAlloc(&as));
		if(m.size() != 12) c.fail("size", "initializer-list constructor size");
		for(uint64_t k : {1, 2, 33, 64, 5, 6, 7, 8, 9, 10, 11, 12}) { int *g = m.template get<uint64_t>(k); if(!g || *g != (int)(k == 33 ? 30 : k == 64 ? 40 : k * 10)) c.fail("get-present", strf("initializer-list map lost key %llu", (unsigned long long)k)); }
		if(m.template get<uint64_t>(3)) c.fail("get-absent", "initializer-list map has key 3");
	}
	expect_no_blocks(as, "after destroying an initializer-list map");
}

template<typename H, typename V>
static void run_family(const char *vname) {
	std::string mode = std::string("rand:") + H::name + ":" + vname;
	if(!want_mode(mode.c_str())) return;
	Rng sr(derive_seed(mode.c_str()));
	uint64_t n = scaled(40, 1500);
	for(uint64_t i = 0; i < n; i++) {
		uint64_t cs = sr.next();
		if(!want_case(i)) continue;
		Rng r(cs);
		size_t uni; unsigned nops;
		switch(i % 5) { case 0: uni = 8; nops = 60; break; case 1: uni = 24; nops = 150; break; case 2: uni = 100; nops = 500; break; case 3: uni = 700; nops = 1500; break; default: uni = opt.thorough() ? 20000 : 3000; nops = opt.thorough() ? 30000 : 4000; break; }
		if(std::is_same_v<H, HConst> || std::is_same_v<H, HLow> || std::is_same_v<H, HMult>) { if(uni > 700) { uni = 700; nops = 1500; } } // chains are linear
		run_case<H, V>(mode.c_str(), i, cs, uni, nops, r.below(3));
		note_distinct(mix(hash_str(mode), cs));
		count("random_histories");
	}
}

// ---- class-type keys, and arguments that refer to each other: `m.insert(rec.name, std::move(rec))` (the key is a member of the value
// that is being moved; a moved-from std::string is empty), `m.insert(m.begin()->key, ...)`-style keys that live inside the map.
struct Rec { std::string name; int payload = 0; };
struct HStr { // (hashes a std::string and a view of the same characters alike: get<KeyCompatible>() may be given either)
	unsigned operator()(std::string_view s) const { unsigned h = 2166136261u; for(char ch : s) h = (h ^ (unsigned char)ch) * 16777619u; return h; }
	unsigned operator()(const std::string &s) const { return (*this)(std::string_view(s)); }
};
static void string_key_case(Rng &r, long long idx) {
	Ctx c; c.type = "hash_map<std::string,Rec>";
	AllocState as; as.owner = "hash_map";
	{
		frg::hash_map<std::string, Rec, HStr, TrackedAlloc> m{HStr{}, TrackedAlloc{&as}};
		std::map<std::string, int> ref;
		unsigned nops = 40 + r.below(200), uni = 4 + r.below(60);
		auto name_of = [&](unsigned k) { return k % 3 == 0 ? strf("k%u", k) : strf("a-key-that-is-longer-than-any-small-string-buffer-%u", k); };
		for(unsigned i = 0; i < nops && !c.bad; i++) {
			unsigned k = r.below(uni); std::string nm = name_of(k);
			switch(r.below(6)) {
			case 0: case 1: { // insert with the key taken from the value that is moved in
				if(ref.count(nm)) break;
				Rec rec{nm, (int)i}; c.op("ins(rec.name,move(rec)):" + std::to_string(k));
				m.insert(rec.name, std::move(rec)); ref[nm] = (int)i; count("inserts_whose_key_is_a_member_of_the_moved_value");
				break; }
			case 2: { // same, copied
				if(ref.count(nm)) break;
				Rec rec{nm, (int)i}; c.op("ins(rec.name,rec):" + std::to_string(k));
				m.insert(rec.name, rec); ref[nm] = (int)i;
				if(rec.name != nm) c.fail("insert-copy-changed-source", "insert(const Key &, const Value &) changed its source");
				break; }
			case 3: { // remove with the key taken from inside the map (the stored entry's own key)
				auto it = m.find(nm); c.op("rem(it->key):" + std::to_string(k));
				if((it != m.end()) != (ref.count(nm) != 0)) { c.fail("find", "find() disagrees with the reference on " + nm); break; }
				if(it == m.end()) break;
				auto got = m.remove(it->template get<0>());
				if(!got || got->payload != ref[nm] || got->name != nm) c.fail("remove-value", "remove(key stored in the map) returned a wrong value for " + nm);
				ref.erase(nm);
				break; }
			default: {
				Rec *g = m.get(nm); auto it = ref.find(nm); c.op("get:" + std::to_string(k));
				if((g != nullptr) != (it != ref.end())) c.fail(g ? "get-absent" : "get-present", strf("get(%s) %s but the reference %s it", nm.c_str(), g ? "finds the key" : "misses", it != ref.end() ? "has" : "lacks"));
				else if(g && (g->payload != it->second || g->name != nm)) c.fail("get-value", "get(" + nm + ") returned another record");
				break; }
			}
			if(m.size() != ref.size()) c.fail("size", strf("size()=%zu expected %zu", (size_t)m.size(), ref.size()));
			if(i % 16 == 0 || i + 1 == nops) {
				std::map<std::string, int> seen;
				for(auto it = m.begin(); it != m.end(); ++it) { auto &e = *it; if(e.template get<0>() != e.template get<1>().name) c.fail("iteration", "an entry's key differs from the name in its record"); seen[e.template get<0>()] = e.template get<1>().payload; }
				if(seen != ref) c.fail("iteration", "iteration does not visit exactly the reference's entries");
				for(unsigned q = 0; q < uni && !c.bad; q++) { std::string qn = name_of(q); Rec *g = m.get(qn); if((g != nullptr) != (ref.count(qn) != 0)) c.fail(g ? "get-absent" : "get-present", "probe of " + qn + " disagrees with the reference");
					// the same lookup with a key of another type that compares and hashes like the stored one
					Rec *gv = m.get<std::string_view>(std::string_view(qn)); if(gv != g) c.fail("get-compatible-key", "get<std::string_view>(" + qn + ") does not return what get(std::string) returns"); }
				// a const map hands out const iterators: walking on from find() visits entries of the map, each at most once, until end()
				const auto &cm = m;
				for(unsigned q = 0; q < uni && q < 6 && !c.bad; q++) {
					std::string qn = name_of(q); auto cf = cm.find(qn);
					if((cf != cm.end()) != (ref.count(qn) != 0)) { c.fail("const-find", "find() on a const map disagrees with the reference on " + qn); break; }
					std::set<std::string> seen; size_t steps = 0;
					for(auto it = cf; it != cm.end() && steps <= ref.size(); ++it, ++steps) {
						if(!(bool)it) { c.fail("const-iterator", "a const iterator that is not end() converts to false"); break; }
						const std::string &k = it->template get<0>();
						if(&(*it).template get<0>() != &k) { c.fail("const-iterator", "operator* and operator-> of a const iterator designate different entries"); break; }
						auto rf = ref.find(k);
						if(rf == ref.end() || rf->second != it->template get<1>().payload || !seen.insert(k).second) { c.fail("const-iterator", "walking a const iterator from find(" + qn + ") visits an entry that is not in the map (or one entry twice)"); break; }
					}
					if(steps > ref.size()) c.fail("const-iterator", "walking a const iterator does not reach end()");
					count("const_iterator_walks");
				}
			}
		}
	}
	expect_no_blocks(as, "after destroying a string-keyed map");
	note_distinct(mix(0x57, (uint64_t)idx));
}

// ---- keys with a lifetime of their own and values without one (hash_map<Name, unsigned>): every stored key is destroyed exactly once,
// by remove() or by the map's destructor
struct HElem { unsigned operator()(const Elem &e) const { return (unsigned)e.get() * 2654435761u; } };
static void tracked_key_case(Rng &r, long long idx) {
	Ctx c; c.type = "hash_map<Elem,int>";
	AllocState as; as.owner = "hash_map"; g_elems.owner = "hash_map";
	{
		frg::hash_map<Elem, int, HElem, TrackedAlloc> m{HElem{}, TrackedAlloc{&as}};
		std::map<int, int> ref;
		unsigned nops = 20 + r.below(120), uni = 3 + r.below(40);
		for(unsigned i = 0; i < nops && !c.bad; i++) {
			int k = (int)r.below(uni);
			switch(r.below(5)) {
			case 0: case 1: if(!ref.count(k)) { c.op("ins:" + std::to_string(k)); if(r.chance(1, 2)) { Elem key(k); m.insert(key, (int)i); } else m.insert(Elem(k), (int)i); ref[k] = (int)i; } break;
			case 2: { c.op("rem:" + std::to_string(k)); auto got = m.remove(Elem(k)); if((bool)got != (ref.count(k) != 0)) c.fail("remove-flag", "remove() of a tracked key disagrees with the reference"); else if(got && *got != ref[k]) c.fail("remove-value", "remove() of a tracked key returned another value"); ref.erase(k); break; }
			default: { c.op("get:" + std::to_string(k)); int *g = m.get(Elem(k)); if((g != nullptr) != (ref.count(k) != 0)) c.fail(g ? "get-absent" : "get-present", "get() of a tracked key disagrees with the reference"); else if(g && *g != ref[k]) c.fail("get-value", "get() of a tracked key returned another value"); break; }
			}
			if(m.size() != ref.size()) c.fail("size", strf("size()=%zu expected %zu", (size_t)m.size(), ref.size()));
			if(g_elems.alive.size() != ref.size()) { c.fail("live-keys", strf("%zu key objects are alive while the map holds %zu entries (a removed entry's key was not destroyed, or a stored one was)", g_elems.alive.size(), ref.size())); if(g_lifetime_armed) violation("C16:lifetime:hash_map:live-keys", strf("%zu key objects alive for %zu entries after [%s ]", g_elems.alive.size(), ref.size(), c.trace.c_str())); }
		}
		if(idx % 2) { while(m.size() && !c.bad) { int k = ref.begin()->first; m.remove(Elem(k)); ref.erase(k); } }
	}
	expect_no_elems("after destroying a map with tracked keys");
	expect_no_blocks(as, "after destroying a map with tracked keys");
	count("tracked_key_histories");
}

int main(int argc, char **argv) {
	parse_args(argc, argv, "c14_hashmap");
	if(opt.replay_arg.find("prop=C16") != std::string::npos) g_prop = "C16";
	g_lifetime_armed = (g_prop == "C16");
	g_model_armed = (g_prop == "C14");
	rec.rule = "a case is one seeded operation history (insert const&/&&, operator[] absent/present, get, find, remove present/absent, drain) on one hash_map instantiation, "
		"compared with std::unordered_map after every operation (size, probes of present+absent keys, full iteration every 32 ops); distinct = (hash functor, value type, history seed)";
	run_family<HIdentity, int>("int"); run_family<HIdentity, Elem>("Elem");
	run_family<HConst, int>("int"); run_family<HConst, Elem>("Elem");
	run_family<HLow, Elem>("Elem");
	run_family<HFrg, int>("int"); run_family<HFrg, Elem>("Elem");
	run_family<HMult, Elem>("Elem");
	run_family<HHigh, int>("int");
	run_family<HWide, int>("int");
	run_family<HSigned, int>("int");
	run_family<HSeeded, int>("int"); run_family<HSeeded, Elem>("Elem");
	if(want_mode("string-keys")) {
		Rng sr(derive_seed("string-keys"));
		uint64_t n = scaled(300, 20000);
		for(uint64_t i = 0; i < n; i++) { uint64_t cs = sr.next(); if(!want_case(i)) continue; begin_case("string-keys", i); Rng r(cs); guarded(g_prop.c_str(), [&] { string_key_case(r, (long long)i); tracked_key_case(r, (long long)i); }); count("string_key_histories"); if(!rec.violations.empty()) break; }
		sample("string-keys: hash_map<std::string, Rec{name,payload}> vs std::map; inserts pass rec.name as the key and std::move(rec) (or rec) as the value; removes pass the key stored inside the map");
	}
	if(want_mode("init-list")) { init_list_case<HIdentity>(); init_list_case<HConst>(); guarded(g_prop.c_str(), [] { moved_from_allocator_case(); }); }
	return finish();
}
