// C12 (E2): ticket_spinlock / simple_spinlock with free-running threads under ThreadSanitizer.
// The critical section updates plain (non-atomic) data, so an acquire/release weakened to relaxed is a data race TSan reports
// (x86 hardware would never show it), and a broken lock loses updates.
#define VERIF_OWN_HOOK
#include "common/verif.hpp"
#include <frg/spinlock.hpp>
#include <frg/mutex.hpp>
#include <thread>
#include <atomic>
#include <vector>

using namespace verif;

static thread_local uint64_t t_jit = 0x9e3779b97f4a7c15ull;
static std::atomic<uint64_t> g_points{0};
static unsigned g_jitter_den = 64;

// hook: with small probability yield or spin briefly between the library's atomic accesses (never inside a harness lock)
extern "C" void frg_verif_point(const char *site, const void *, unsigned long) {
	t_jit ^= t_jit << 13; t_jit ^= t_jit >> 7; t_jit ^= t_jit << 17;
	if(site[0] == 's' && site[1] == 'p') return; // spin sites: no extra delay
	if(t_jit % g_jitter_den == 0) { if(t_jit & 0x100) sched_yield(); else for(volatile int i = 0; i < (int)((t_jit >> 12) & 0x3ff); i++) {} }
}

template<typename L> struct Holder { L lock; Holder(uint32_t) {} };
template<> struct Holder<frg::ticket_spinlock> { frg::ticket_spinlock lock; Holder(uint32_t first) : lock(first) {} };

// `first_ticket` != 0: the ticket lock starts that many tickets before its counters wrap, so the run crosses the wrap-around
template<typename L>
static void torture(const char *name, long long idx, int nthreads, uint64_t pairs, bool use_guard, uint32_t first_ticket = 0) {
	std::string mode = std::string("tsan:") + name;
	begin_case(mode.c_str(), idx);
	Holder<L> holder(first_ticket);
	L &lock = holder.lock;
	struct Shared { uint64_t counter = 0; uint64_t pad[7]; uint64_t last_owner = 0; int in_cs = 0; } sh; // plain data
	std::atomic<int> excl_violations{0};
	std::vector<std::thread> th;
	for(int t = 0; t < nthreads; t++) th.emplace_back([&, t] {
		t_jit = 0x1234567 * (t + 1) + idx;
		for(uint64_t p = 0; p < pairs; p++) {
			if(use_guard) {
				frg::unique_lock<L> g(lock);
				if(sh.in_cs++ != 0) excl_violations++;
				sh.counter++; sh.last_owner = t;
				sh.in_cs--;
			} else {
				lock.lock();
				if(sh.in_cs++ != 0) excl_violations++;
				sh.counter++; sh.last_owner = t;
				sh.in_cs--;
				lock.unlock();
			}
		}
	});
	for(auto &x : th) x.join();
	count("tsan_lock_pairs", nthreads * pairs);
	if(excl_violations.load()) violation(std::string("C12:threads:") + name + ":mutual-exclusion", strf("%d critical-section entries found another thread inside", excl_violations.load()));
	if(sh.counter != nthreads * pairs) violation(std::string("C12:threads:") + name + ":lost-update", strf("counter is %llu after %llu locked increments", (unsigned long long)sh.counter, (unsigned long long)(nthreads * pairs)));
	if(!first_ticket && lock.is_locked()) violation(std::string("C12:threads:") + name + ":is_locked", "is_locked() true after all threads released");
	note_distinct(mix(hash_str(mode), idx * 16 + nthreads));
}

int main(int argc, char **argv) {
	parse_args(argc, argv, "c12_tsan");
	g_panic_exits = true;
	start_inconclusive_watchdog(opt.thorough() ? 3000 : 90);
	rec.rule = "a case is one run of 2-4 free-running threads doing lock/unlock pairs around plain shared data under ThreadSanitizer, with seeded jitter at the library's hook points; distinct = (lock, thread count, run index)";
	uint64_t runs = scaled(6, 60);
	for(uint64_t i = 0; i < runs; i++) {
		long long idx = i * opt.nshards + opt.shard;
		int nt = 2 + idx % 3;
		g_jitter_den = (i % 3 == 0) ? 8 : 64;
		torture<frg::ticket_spinlock>("ticket_spinlock", idx, nt, opt.thorough() ? 40000 : 8000, i % 2, (i % 4 >= 2) ? (uint32_t)(0u - 1000 * (1 + idx % 7)) : 0); // half of the runs cross the 2^32 wrap after a few thousand tickets
		if(i % 4 >= 2) count("tsan_runs_across_ticket_wrap");
		torture<frg::simple_spinlock>("simple_spinlock", idx, nt, opt.thorough() ? 40000 : 8000, i % 2);
	}
	sample("tsan:ticket_spinlock: 3 threads x 8000 lock/unlock pairs (directly and through unique_lock) incrementing a plain counter; TSan + lost-update + overlap checks");
	return finish();
}
