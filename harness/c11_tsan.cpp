// C11 (E2): classic RCU torture of qs_domain under ThreadSanitizer (and, as a second flavour, AddressSanitizer).
// Readers touch *plain* fields of the currently published object between their quiescent states; the updater unlinks an
// object with a seq_cst exchange (the client's side of the contract), registers a callback with await_barrier(), and the
// callback overwrites and frees the object. If the chain of acks is not synchronizing, the readers' last accesses do not
// happen-before the callback: a data race (TSan) / use-after-free (ASan). Counting oracles: every callback at most once,
// only inside the updater's run(), and all of them eventually (bounded progress after the readers keep reporting).
#define VERIF_OWN_HOOK
#include "common/verif.hpp"
#include <frg/qs.hpp>
#include <frg/spinlock.hpp>
#include <thread>
#include <atomic>
#include <mutex>
#include <vector>

#include <time.h>
#include <string.h>

using namespace verif;

static thread_local uint64_t t_jit = 88172645463325252ull;
static unsigned g_jitter_den = 32;
static thread_local bool t_long_stalls = false; // the (offline) updater: now and then it is descheduled for a whole grace period inside await_barrier
extern "C" void frg_verif_point(const char *site, const void *, unsigned long) {
	t_jit ^= t_jit << 13; t_jit ^= t_jit >> 7; t_jit ^= t_jit << 17;
	if(site[0] == 's' && site[1] == 'p') return;
	// between reading the counter and publishing the desired counter: long enough for the readers to complete a period and defer the next
	if(t_long_stalls && !strcmp(site, "qs.barrier.load_desired") && t_jit % 3 == 0) { timespec ts{0, 60000 + (long)(t_jit % 7) * 20000}; nanosleep(&ts, nullptr); return; }
	if(t_jit % g_jitter_den == 0) { if(t_jit & 0x100) sched_yield(); else for(volatile int i = 0; i < (int)((t_jit >> 12) & 0x1ff); i++) {} }
}

struct Obj {
	frg::qs_node node;       // first member: the callback gets back to the object from the node address
	uint64_t a, b;           // plain fields: invariant a + b == 1000
	std::atomic<int> *cb_count; int *in_run_flag; int cb_seen = 0;
};
static std::atomic<uint64_t> g_invariant_broken{0}, g_cb_outside_run{0}, g_cb_twice{0};

static void reclaim(frg::qs_node *n) {
	Obj *o = reinterpret_cast<Obj *>(n);
	if(!*o->in_run_flag) g_cb_outside_run++;
	if(o->cb_seen++) g_cb_twice++;
	o->cb_count->fetch_add(1, std::memory_order_relaxed);
	o->a = 0xdeadbeef; o->b = 0xdeadbeef; // plain writes: race with any reader that is not ordered before us
	delete o;
}

#ifdef C11_TICKET_MUTEX
using Mutex = frg::ticket_spinlock; // the domain mutex managarm itself uses (the guard code may special-case what a mutex type offers)
#else
using Mutex = std::mutex;
#endif

// offline_updater: the updater registers its callbacks and calls run() as an agent that is NOT online (a pure writer is no reader)
static void torture(long long idx, int nreaders, unsigned updates, bool joiners, bool barrier_caller, bool offline_updater = false) {
	begin_case("tsan:torture", idx);
	frg::qs_domain<Mutex> dom;
	std::atomic<Obj *> published{nullptr};
	std::atomic<int> cb_count{0};
	std::atomic<bool> stop{false};
	std::atomic<uint64_t> reader_sections{0};
	int in_run = 0;
	auto make = [&](uint64_t v) { Obj *o = new Obj; o->a = v; o->b = 1000 - v; o->cb_count = &cb_count; o->in_run_flag = &in_run; o->node.on_grace_period = reclaim; return o; };
	published.store(make(1), std::memory_order_seq_cst);
	std::vector<std::thread> th;
	for(int r = 0; r < nreaders; r++) th.emplace_back([&, r] {
		t_jit = 1234567 * (r + 3) + idx;
		frg::qs_agent<Mutex> ag(&dom);
		uint64_t n = 0;
		bool online = true;
		while(!stop.load(std::memory_order_seq_cst)) {
			if(online) {
				// read-side critical section
				Obj *o = published.load(std::memory_order_seq_cst);
				if(o) { uint64_t a = o->a, b = o->b; if(a + b != 1000) g_invariant_broken++; }
				n++;
				ag.quiescent_state();
				if(joiners && (n % 97) == 0) {
					try { ag.offline(); online = false; } catch(...) { }
				}
			} else {
				for(volatile int i = 0; i < 200; i++) {}
				ag.online(); online = true;
			}
		}
		reader_sections += n;
		// leave the domain for good (an agent that deferred a grace period may not go offline: keep reporting until it can)
		for(int tries = 0; online && tries < 1000000; tries++) { ag.quiescent_state(); try { ag.offline(); online = false; } catch(...) {} }
	});
	std::thread barrier_thread;
	std::atomic<uint64_t> barriers_done{0};
	if(barrier_caller) barrier_thread = std::thread([&] {
		t_jit = 777 + idx;
		frg::qs_agent<Mutex> ag(&dom);
		while(!stop.load(std::memory_order_seq_cst)) {
			Obj *mine = make(7);
			Obj *old = published.exchange(mine, std::memory_order_seq_cst);
			ag.quiescent_barrier();           // returns only after every reader went through a quiescent state
			if(old) { old->a = 1; old->b = 2; delete old; } // plain writes + free, directly after the barrier
			barriers_done++;
			for(int i = 0; i < 50; i++) ag.quiescent_state();
		}
		for(int tries = 0; tries < 1000000; tries++) { ag.quiescent_state(); try { ag.offline(); break; } catch(...) {} }
	});
	{
		// the updater is an agent too
		t_jit = 4242 + idx;
		frg::qs_agent<Mutex> ag(&dom);
		t_long_stalls = offline_updater;
		if(offline_updater) { for(int tries = 0; tries < 1000000; tries++) { try { ag.offline(); break; } catch(...) { ag.quiescent_state(); } } count("tsan_runs_with_offline_updater"); }
		int registered = 0;
		for(unsigned u = 0; u < updates; u++) {
			Obj *fresh = make(2 + u % 900);
			Obj *old = published.exchange(fresh, std::memory_order_seq_cst);
			if(old) { ag.await_barrier(&old->node); registered++; }
			if(!offline_updater) ag.quiescent_state();
			in_run = 1; ag.run(); in_run = 0;
			if(u % 16 == 0) std::this_thread::yield();
			if(offline_updater && u % 4 == 0) for(volatile int i = 0; i < 300; i++) {} // let periods complete between registrations
		}
		// bounded progress: keep reporting and running; all registered callbacks must arrive
		uint64_t spins = 0;
		while(cb_count.load() < registered && spins < 20000000) { if(!offline_updater) ag.quiescent_state(); in_run = 1; ag.run(); in_run = 0; spins++; if(spins % 64 == 0) std::this_thread::yield(); }
		if(cb_count.load() < registered) violation("C11:threads:L-grace-period-lost", strf("%d of %d registered callbacks never ran although all agents kept reporting quiescent states", registered - cb_count.load(), registered));
		count("tsan_callbacks", cb_count.load());
		stop.store(true, std::memory_order_seq_cst);
		t_long_stalls = false;
		if(!offline_updater) for(int tries = 0; tries < 1000000; tries++) { ag.quiescent_state(); try { ag.offline(); break; } catch(...) {} }
	}
	for(auto &x : th) x.join();
	if(barrier_caller) barrier_thread.join();
	count("tsan_reader_sections", reader_sections.load());
	count("tsan_barriers", barriers_done.load());
	delete published.load();
	if(g_invariant_broken.load()) violation("C11:threads:reader-saw-reclaimed-object", strf("%llu read-side sections saw an object whose fields had already been overwritten by its grace-period callback", (unsigned long long)g_invariant_broken.load()));
	if(g_cb_outside_run.load()) violation("C11:threads:S1b-callback-outside-run", "a callback ran outside the registering agent's run()");
	if(g_cb_twice.load()) violation("C11:threads:S1a-callback-twice", "a callback ran twice");
	note_distinct(mix(hash_str("tsan:torture"), idx * 8 + nreaders));
}

int main(int argc, char **argv) {
	parse_args(argc, argv, "c11_tsan");
	start_inconclusive_watchdog(opt.thorough() ? 3000 : 150);
	rec.rule = "a case is one run of an RCU torture (1 updater + 2-5 readers, optionally agents leaving/joining and a quiescent_barrier() caller) with plain reader data under ThreadSanitizer; distinct = (configuration, run index)";
	uint64_t runs = scaled(5, 80);
	for(uint64_t i = 0; i < runs; i++) {
		long long idx = i * opt.nshards + opt.shard;
		g_jitter_den = (i % 2) ? 8 : 48;
		torture(idx, 2 + idx % 4, opt.thorough() ? 3000 : 500, i % 3 == 1, i % 4 == 2, i % 5 >= 3);
	}
	sample("tsan:torture: updater exchanges the published object 700 times, await_barrier(old) + run(); 2-5 readers read its plain fields between quiescent_state() calls; the callback overwrites and deletes the object");
	return finish();
}
