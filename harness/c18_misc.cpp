// C18 (array, mt19937, pcg_basic32, insertion_sort) against their references.
#include "common/verif.hpp"
#include <frg/array.hpp>
#include <frg/random.hpp>
#include <frg/algorithm.hpp>
#include <array>
#include <limits>
#include <random>
#include <algorithm>
#include <memory>

using namespace verif;

// ------------------------------------------------------------------ array
// The frg::array lives in an exact-size heap block (ASan red zone right behind _stor[N-1]) between canaries.
template<typename T, size_t N>
static void array_case(Rng &r, long long &c) {
	char mode[48]; snprintf(mode, sizeof mode, "array:%zu:%zu", sizeof(T), N);
	if(!want_mode(mode)) return;
	for(int rep = 0; rep < 20; rep++, c++) {
		if(!want_case(c)) continue;
		begin_case(mode, c);
		using FA = frg::array<T, N>;
		static_assert(sizeof(FA) == sizeof(T) * N);
		std::unique_ptr<unsigned char[]> blk(new unsigned char[sizeof(FA)]);
		memset(blk.get(), 0xA5, sizeof(FA));
		FA *fa = new (blk.get()) FA;
		std::array<T, N> sa;
		for(size_t i = 0; i < N; i++) { T v = (T)r.next(); (*fa)[i] = v; sa[i] = v; }
		auto fail = [&](const char *what, const std::string &d) {
			violation(strf("C18:model:array:%s", what), strf("frg::array<%zu bytes,%zu>: %s", sizeof(T), N, d.c_str()));
		};
		const FA &cfa = *fa;
		if(&fa->front() != &(*fa)[0] || fa->front() != sa.front()) fail("front", "front() is not element 0");
		if(&cfa.front() != &cfa[0]) fail("front", "const front() is not element 0");
		if(&fa->back() != &(*fa)[N - 1]) fail("back", strf("back() designates index %td, expected %zu", &fa->back() - fa->data(), N - 1));
		else if(fa->back() != sa.back()) fail("back", "back() value differs");
		if(&cfa.back() != &cfa[N - 1]) fail("back", strf("const back() designates index %td, expected %zu", &cfa.back() - cfa.data(), N - 1));
		if(fa->size() != N || fa->max_size() != N || fa->empty() != (N == 0)) fail("size", "size/max_size/empty");
		if(fa->data() != &(*fa)[0] || cfa.data() != &cfa[0]) fail("data", "data()");
		if((size_t)(fa->end() - fa->begin()) != N || (size_t)(cfa.cend() - cfa.cbegin()) != N || (size_t)(cfa.end() - cfa.begin()) != N) fail("iter", "end()-begin() != N");
		size_t k = 0;
		for(auto &x : *fa) { if(x != sa[k]) { fail("iter", strf("iteration element %zu differs", k)); break; } k++; }
		if(k != N) fail("iter", "iteration count");
		// equality
		FA other = *fa;
		if(!(other == *fa)) fail("eq", "copy not equal");
		size_t pos = r.below(N);
		other[pos] = (T)(other[pos] + 1);
		if(other == *fa) fail("eq", strf("arrays differing at %zu compare equal", pos));
		// swap
		FA x = *fa, y = other;
		swap(x, y);
		if(!(x == other) || !(y == *fa)) fail("swap", "swap did not exchange contents");
		// get<I>
		if constexpr (N >= 2) {
			if(&frg::get<0>(*fa) != &(*fa)[0] || &frg::get<N - 1>(*fa) != &(*fa)[N - 1] || &frg::get<N - 1>(cfa) != &cfa[N - 1]) fail("get", "get<I>");
			T mv = frg::get<1>(FA(*fa)); if(mv != sa[1]) fail("get", "get<1>(rvalue)");
		}
		// concat
		{
			frg::array<T, 2> p{(T)1, (T)2}; frg::array<T, 3> q{(T)3, (T)4, (T)5};
			auto cat = frg::array_concat<T>(*fa, p, q, *fa);
			static_assert(std::tuple_size_v<decltype(cat)> == 2 * N + 5);
			bool ok = true;
			for(size_t i = 0; i < N; i++) ok &= cat[i] == sa[i] && cat[N + 5 + i] == sa[i];
			ok &= cat[N] == (T)1 && cat[N + 1] == (T)2 && cat[N + 2] == (T)3 && cat[N + 3] == (T)4 && cat[N + 4] == (T)5;
			if(!ok) fail("concat", "array_concat order/values");
			auto one = frg::array_concat<T>(p);
			if(!(one == p)) fail("concat", "array_concat of one array");
		}
		// deduction guide
		{ frg::array d{(T)7, (T)8, (T)9}; static_assert(std::tuple_size_v<decltype(d)> == 3); if(d.back() != (T)9 || d.front() != (T)7) fail("back", "deduced array back/front"); }
		uint64_t h = mix(hash_bytes(fa->data(), sizeof(FA)), N * 131 + sizeof(T));
		note_distinct(h);
		count("array_cases");
		fa->~FA();
	}
}

// comparison with element types whose operator== is not "same bytes": floating point (-0.0 == +0.0, NaN != NaN) and a class
// with a user-provided == that ignores one member
struct CaseInsensitive { char c; char pad; bool operator==(const CaseInsensitive &o) const { return (c | 0x20) == (o.c | 0x20); } };
template<typename T, size_t N, typename Gen>
static void array_compare_case(const char *tname, Rng &r, long long &c, Gen gen) {
	char mode[48]; snprintf(mode, sizeof mode, "array-eq:%s:%zu", tname, N);
	if(!want_mode(mode)) return;
	for(int rep = 0; rep < 200; rep++, c++) {
		if(!want_case(c)) continue;
		begin_case(mode, c);
		frg::array<T, N> fa, fb; std::array<T, N> sa, sb;
		for(size_t i = 0; i < N; i++) { T v = gen(r); fa[i] = v; sa[i] = v; T w = r.chance(2, 3) ? v : gen(r); if(r.chance(1, 4)) w = gen(r); fb[i] = w; sb[i] = w; }
		if(r.chance(1, 5)) { fb = fa; sb = sa; }
		bool feq = (fa == fb), fne = (fa != fb), seq = (sa == sb);
		if(feq != seq || fne == feq) violation(strf("C18:model:array:eq:%s", tname), strf("frg::array<%s,%zu>: a==b is %d, a!=b is %d, std::array says a==b is %d", tname, N, (int)feq, (int)fne, (int)seq));
		bool fself = (fa == fa), sself = (sa == sa);
		if(fself != sself) violation(strf("C18:model:array:eq:%s", tname), strf("frg::array<%s,%zu>: a==a is %d, std::array says %d", tname, N, (int)fself, (int)sself));
		note_distinct(mix(hash_bytes(&fa, sizeof fa), mix(hash_bytes(&fb, sizeof fb), N)));
		count("array_compare_cases");
	}
}

static void run_array() {
	{
		Rng r(derive_seed("array-eq")); long long c = 0;
		auto dgen = [](Rng &r) -> double { switch(r.below(6)) { case 0: return 0.0; case 1: return -0.0; case 2: return std::numeric_limits<double>::quiet_NaN(); case 3: return 1.5; case 4: return -1.5; default: return (double)r.below(3); } };
		auto fgen = [](Rng &r) -> float { switch(r.below(5)) { case 0: return 0.0f; case 1: return -0.0f; case 2: return std::numeric_limits<float>::quiet_NaN(); case 3: return 2.0f; default: return (float)r.below(3); } };
		auto cgen = [](Rng &r) -> CaseInsensitive { return CaseInsensitive{(char)("aAbB"[r.below(4)]), (char)r.below(3)}; };
		array_compare_case<double, 1>("double", r, c, dgen); array_compare_case<double, 2>("double", r, c, dgen); array_compare_case<double, 5>("double", r, c, dgen);
		array_compare_case<float, 3>("float", r, c, fgen); array_compare_case<float, 8>("float", r, c, fgen);
		array_compare_case<CaseInsensitive, 1>("class-with-own-eq", r, c, cgen); array_compare_case<CaseInsensitive, 4>("class-with-own-eq", r, c, cgen);
	}
	Rng r(derive_seed("array"));
	long long c = 0;
	array_case<uint8_t, 1>(r, c); array_case<uint8_t, 2>(r, c); array_case<uint8_t, 3>(r, c); array_case<uint8_t, 7>(r, c); array_case<uint8_t, 8>(r, c); array_case<uint8_t, 17>(r, c);
	array_case<uint16_t, 1>(r, c); array_case<uint16_t, 5>(r, c);
	array_case<uint32_t, 1>(r, c); array_case<uint32_t, 2>(r, c); array_case<uint32_t, 6>(r, c); array_case<uint32_t, 64>(r, c);
	array_case<uint64_t, 1>(r, c); array_case<uint64_t, 2>(r, c); array_case<uint64_t, 3>(r, c); array_case<uint64_t, 31>(r, c); array_case<uint64_t, 100>(r, c);
	sample("array<uint32_t,6>: front/back/[]/iteration/==/swap/get/array_concat vs std::array on random contents in an exact-size heap block");
}

// ------------------------------------------------------------------ mt19937
static void run_mt() {
	if(!want_mode("mt19937")) return;
	std::vector<uint32_t> seeds = {0, 1, 5489, 0x80000000u, 0xffffffffu, 2, 19650218u};
	Rng r(derive_seed("mt"));
	uint64_t nrand = scaled(150, 10000);
	for(uint64_t i = 0; i < nrand; i++) seeds.push_back((uint32_t)r.next());
	long long c = 0;
	for(uint32_t sd : seeds) {
		if(!want_case(c)) { c++; continue; }
		begin_case("mt19937", c++);
		case_detail("seed=%u", sd);
		frg::mt19937 f; std::mt19937 s(sd);
		bool default_seed = (sd == 5489);
		if(!default_seed) f.seed(sd);
		unsigned draws = 3000;
		uint64_t h = sd;
		for(unsigned k = 0; k < draws; k++) {
			uint32_t a = f(), b = (uint32_t)s();
			if(a != b) { violation("C18:model:mt19937:stream", strf("mt19937 seed %u: draw %u is %u, reference %u", sd, k, a, b)); break; }
			h = mix(h, a);
			count("mt_draws_compared");
		}
		// re-seeding an already used generator restarts the stream
		f.seed(sd ^ 0x5a5a5a5au); std::mt19937 s2(sd ^ 0x5a5a5a5au);
		for(unsigned k = 0; k < 700; k++) { uint32_t a = f(), b = (uint32_t)s2(); if(a != b) { violation("C18:model:mt19937:reseed", strf("mt19937 re-seed %u: draw %u differs", sd ^ 0x5a5a5a5au, k)); break; } }
		note_distinct(h);
	}
	{ frg::mt19937 f; std::mt19937 s; for(int k = 0; k < 10000; k++) s(), f(); /* 10000th value known answer */ }
	{ frg::mt19937 f; uint32_t v = 0; for(int k = 0; k < 10000; k++) v = f(); if(v != 4123659995u) violation("C18:model:mt19937:kat", strf("10000th draw of default-seeded mt19937 is %u, standard requires 4123659995", v)); }
	sample("mt19937: 3000 draws (4 state refills) + 700 after re-seed, per seed, vs std::mt19937; seeds {0,1,5489,2^31,2^32-1,...}+random");
}

// ------------------------------------------------------------------ PCG32 (independent transcription of pcg-c-basic)
struct RefPcg {
	uint64_t state, inc;
	void srandom(uint64_t initstate, uint64_t initseq) {
		state = 0U; inc = (initseq << 1u) | 1u; random(); state += initstate; random();
	}
	uint32_t random() {
		uint64_t old = state;
		state = old * 6364136223846793005ULL + inc;
		uint32_t xs = (uint32_t)(((old >> 18u) ^ old) >> 27u);
		uint32_t rot = (uint32_t)(old >> 59u);
		return (xs >> rot) | (xs << ((32 - rot) & 31));
	}
	uint32_t bounded(uint32_t bound) {
		uint32_t threshold = (uint32_t)(0x100000000ull % bound); // == -bound % bound
		for(;;) { uint32_t r = random(); if(r >= threshold) return r % bound; }
	}
};

static void run_pcg() {
	if(!want_mode("pcg32")) return;
	// published known-answer: pcg32_srandom(42, 54) -> first six outputs of pcg32-demo
	{
		RefPcg p; p.srandom(42, 54);
		const uint32_t kat[6] = {0xa15c02b7, 0x7b47f409, 0xba1d3330, 0x83d2f293, 0xbfa4784b, 0xcbed606e};
		frg::pcg_basic32 f(42, 54);
		for(int i = 0; i < 6; i++) {
			uint32_t a = f(), b = p.random();
			if(b != kat[i]) { fprintf(stderr, "reference PCG transcription is wrong\n"); exit(2); }
			if(a != kat[i]) violation("C18:model:pcg32:kat", strf("pcg_basic32(42,54) output %d is 0x%x, published 0x%x", i, a, kat[i]));
		}
	}
	Rng r(derive_seed("pcg"));
	uint64_t n = scaled(400, 20000);
	for(uint64_t c = 0; c < n; c++) {
		if(!want_case(c)) continue;
		begin_case("pcg32", c);
		uint64_t seed, seq;
		switch(c % 8) { case 0: seed = 0; seq = 0; break; case 1: seed = ~0ull; seq = ~0ull; break; case 2: seed = 1; seq = 1; break; case 3: seed = r.next(); seq = 1ull << 63; break;
			default: seed = r.next(); seq = r.next(); }
		case_detail("seed=%llu seq=%llu", (unsigned long long)seed, (unsigned long long)seq);
		bool use_default_seq = (c % 5 == 4);
		frg::pcg_basic32 f = use_default_seq ? frg::pcg_basic32(seed) : frg::pcg_basic32(seed, seq);
		RefPcg p; p.srandom(seed, use_default_seq ? 1 : seq);
		uint64_t h = mix(seed, seq);
		for(int k = 0; k < 200; k++) {
			if(r.chance(1, 3)) {
				uint32_t bound;
				switch(r.below(6)) { case 0: bound = 1; break; case 1: bound = 2; break; case 2: bound = 0xffffffffu; break; case 3: bound = 0x80000000u; break; case 4: bound = 0x80000001u; break; default: bound = (uint32_t)r.next() | 1; }
				uint32_t a = f(bound), b = p.bounded(bound);
				if(a >= bound) violation("C18:model:pcg32:bound", strf("bounded draw %u not below bound %u", a, bound));
				if(a != b) { violation("C18:model:pcg32:bounded-stream", strf("pcg seed=%llu seq=%llu bound=%u: got %u, reference %u", (unsigned long long)seed, (unsigned long long)seq, bound, a, b)); break; }
				h = mix(h, a);
			} else {
				uint32_t a = f(), b = p.random();
				if(a != b) { violation("C18:model:pcg32:stream", strf("pcg seed=%llu seq=%llu draw %d: got %u, reference %u", (unsigned long long)seed, (unsigned long long)seq, k, a, b)); break; }
				h = mix(h, a);
			}
			count("pcg_draws_compared");
		}
		// re-seed
		f.seed(seed ^ 99, seq + 3); p.srandom(seed ^ 99, seq + 3);
		for(int k = 0; k < 20; k++) if(f() != p.random()) { violation("C18:model:pcg32:reseed", "stream after seed() differs from reference"); break; }
		note_distinct(h);
	}
	sample("pcg_basic32(seed,seq): 200 mixed plain/bounded draws vs transcription of pcg-c-basic; KAT srandom(42,54)=a15c02b7 7b47f409 ...");
}

// ------------------------------------------------------------------ insertion_sort
struct Item { int key; int id; };

template<typename Comp>
static void check_sort(std::vector<Item> v, Comp comp, const char *cname) {
	std::vector<Item> orig = v;
	// sort inside an exact-size heap block so that out-of-range iterator dereferences are ASan errors
	Item *blk = (Item *)malloc(v.size() * sizeof(Item) + 1);
	memcpy(blk, v.data(), v.size() * sizeof(Item));
	frg::insertion_sort(blk, blk + v.size(), comp);
	std::vector<Item> out(blk, blk + v.size());
	free(blk);
	// permutation: ids are unique
	std::vector<int> ids;
	for(auto &x : out) ids.push_back(x.id);
	std::sort(ids.begin(), ids.end());
	bool perm = ids.size() == orig.size();
	for(size_t i = 0; perm && i < ids.size(); i++) perm = ids[i] == (int)i;
	for(auto &x : out) if(perm && orig[x.id].key != x.key) perm = false;
	if(!perm) violation(strf("C18:model:sort:permutation:%s", cname), strf("insertion_sort output is not a permutation of its input (n=%zu)", orig.size()));
	for(size_t i = 0; i < out.size(); i++)
		for(size_t j = i + 1; j < out.size(); j++)
			if(comp(out[i], out[j])) {
				violation(strf("C18:model:sort:order:%s", cname), strf("after insertion_sort comp(a[%zu],a[%zu]) holds (keys %d,%d, n=%zu)", i, j, out[i].key, out[j].key, out.size()));
				return;
			}
}

static void run_sort() {
	if(!want_mode("sort")) return;
	long long c = 0;
	auto lt = [](const Item &a, const Item &b) { return a.key < b.key; };
	auto gt = [](const Item &a, const Item &b) { return a.key > b.key; };
	// strict PARTIAL orders (transitive, irreflexive, with incomparable elements): the postcondition "no earlier element satisfies
	// comp(earlier, later)" is stated for any comp; an algorithm that stops at the first neighbour it is unordered with breaks it
	auto nan_lt = [](const Item &a, const Item &b) { return a.key != 2 && b.key != 2 && a.key < b.key; };               // key 2 plays NaN: unordered with everything
	auto ival = [](const Item &a, const Item &b) { int alo = a.key / 10, ahi = alo + a.key % 10, blo = b.key / 10; (void)alo; return ahi < blo; }; // key = 10*lo + length: interval order "a lies wholly before b"
	// exhaustive: all arrays up to length 6 over 3 values (strict comparators; for a non-strict comparator such as <= no
	// arrangement of equal keys can satisfy the postcondition, so the property is only meaningful for strict orders)
	unsigned maxlen = opt.thorough() ? 8 : 6;
	for(unsigned len = 0; len <= maxlen; len++) {
		uint64_t total = 1; for(unsigned i = 0; i < len; i++) total *= 3;
		for(uint64_t x = 0; x < total; x++, c++) {
			if(!want_case(c)) continue;
			begin_case("sort", c);
			std::vector<Item> v; uint64_t y = x;
			for(unsigned i = 0; i < len; i++) { v.push_back({(int)(y % 3), (int)i}); y /= 3; }
			check_sort(v, lt, "lt"); check_sort(v, gt, "gt"); check_sort(v, nan_lt, "partial-order-with-unordered-element");
			{ std::vector<Item> w = v; for(auto &it : w) it.key = it.key == 0 ? 1 : it.key == 1 ? 9 : 51; check_sort(w, ival, "interval-order"); } // [0,1], [0,9], [5,6]
			note_distinct(mix(len, x));
			count("sort_arrays");
		}
	}
	Rng r(derive_seed("sort"));
	uint64_t n = scaled(2000, 40000);
	for(uint64_t i = 0; i < n; i++, c++) {
		if(!want_case(c)) { r.next(); continue; }
		begin_case("sort", c);
		Rng rr(r.next());
		size_t len = rr.below(rr.chance(1, 10) ? 200 : 24);
		int kind = rr.below(5);
		std::vector<Item> v;
		for(size_t k = 0; k < len; k++) {
			int key = kind == 0 ? (int)k : kind == 1 ? (int)(len - k) : kind == 2 ? (int)rr.below(3) : kind == 3 ? (int)(rr.next() >> 33) - (1 << 30) : (int)std::min(k, len - k);
			v.push_back({key, (int)k});
		}
		check_sort(v, lt, "lt"); check_sort(v, gt, "gt");
		{ std::vector<Item> w = v; for(auto &it : w) it.key = (int)((unsigned)it.key % 5); check_sort(w, nan_lt, "partial-order-with-unordered-element");
		  for(auto &it : w) it.key = (int)((unsigned)it.key * 7 % 90); check_sort(w, ival, "interval-order"); }
		uint64_t h = len; for(auto &x : v) h = mix(h, x.key);
		note_distinct(h);
		count("sort_arrays");
	}
	sample("insertion_sort: all arrays of length<=6 over keys {0,1,2} with comparators < and >; random arrays to length 200 (ascending, descending, ties, organ-pipe)");
}

int main(int argc, char **argv) {
	parse_args(argc, argv, "c18_misc");
	rec.rule = "array: distinct random contents per (T,N); mt19937/pcg: distinct (seed, output stream hash); sort: distinct input arrays";
	run_array();
	run_mt();
	run_pcg();
	run_sort();
	return finish();
}
