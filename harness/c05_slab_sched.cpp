// C05 (E3): slab_pool under the controlled scheduler. Context switches at every pool mutex operation (SchedMutex), at the
// three hook points between the pool's lock regions, and at every Policy callback. Monitors (all serialized by the baton):
//  - a block handed out while it is still live / overlapping a live block (double hand-out)
//  - C01 placement checks across threads (inside a live mapping, big enough)
//  - per-block patterns written with plain stores by the owner, verified at free
//  - Policy::map/unmap entered while the calling worker holds a pool mutex
//  - deadlock / livelock as scheduler verdicts
#define VERIF_SCHED_HOOK
#include <new>
#include "common/verif.hpp"
#include "common/sched.hpp"
#include <frg/slab.hpp>
#include <sys/mman.h>
#include <map>

using namespace verif;

struct Mapping { uintptr_t base; size_t len; void *raw; size_t rawlen; void *bookkeeping = nullptr; std::vector<uint8_t> poison; /* 1 = poisoned; poisoning policy only */ };
struct PolState { std::map<uintptr_t, Mapping> maps; uint64_t n_map = 0, n_unmap = 0; bool bad = false; std::string why;
	long fail_at = -1; uint64_t map_calls = 0, n_failed = 0; }; // fail_at: the map call with this index (0-based, prefill included) returns 0
static thread_local bool t_map_failed = false; // a map() call made by this worker failed since the flag was last cleared
static PolState *g_ps;
// re-entrant policy variant: the policy keeps one bookkeeping record per mapping and allocates it from the pool it serves
// (the property promises this works because map/unmap are never called with a pool lock held)
static bool g_reentrant = false;
static thread_local int t_policy_depth = 0;
static void *reentrant_alloc(size_t n);
static void reentrant_free(void *p);
static std::string g_prop = "C05"; // "C03": the same driver run for the poisoning clause of C03 across threads (only poison verdicts are armed)

// POISON: the policy has poison/unpoison/unpoison_expand callbacks (each one a scheduling point) and keeps a byte shadow
// GEOM 0: 4K slabs, classes 8..128 (classes run empty at once); GEOM 1: 32K slabs, classes 8..8192 (size classes of a page and more)
static thread_local const char *t_trace_kinds = "af"; // which trace records the pool call in progress on this thread may write
static uint64_t g_trace_records = 0;
template<bool POISON, int GEOM>
struct SPolicyT {
	static constexpr bool poisoning = POISON;
	static constexpr size_t pagesize = 0x1000, slabsize = GEOM ? 0x8000 : 0x1000, sb_size = GEOM ? 0x8000 : 0x1000;
	static constexpr int num_buckets = GEOM ? 11 : 5; // larger requests get their own reservation
	void no_lock(const char *cb) {
		if(sched::SchedMutex::held_by_me() && !g_ps->bad) { g_ps->bad = true; g_ps->why = strf("policy-called-with-pool-lock:%s|Policy::%s entered while the calling worker holds %d pool mutex(es)", cb, cb, sched::SchedMutex::held_by_me()); }
	}
	uintptr_t map(size_t len, size_t align) {
		no_lock("map");
		sched::yield_point("policy.map", len);
		if(g_ps->fail_at >= 0 && (long)g_ps->map_calls++ == g_ps->fail_at) { g_ps->n_failed++; t_map_failed = true; sched::yield_point("policy.map.returns0", len); return 0; }
		size_t rawlen = len + align + pagesize;
		void *raw = mmap(nullptr, rawlen, PROT_READ | PROT_WRITE, MAP_PRIVATE | MAP_ANONYMOUS | MAP_NORESERVE, -1, 0);
		uintptr_t base = ((uintptr_t)raw + align - 1) & ~(uintptr_t)(align - 1);
		void *bk = nullptr;
		if(g_reentrant && t_policy_depth == 0) { t_policy_depth++; bk = reentrant_alloc(24); t_policy_depth--; }
		g_ps->maps[base] = {base, len, raw, rawlen, bk, POISON ? std::vector<uint8_t>(len, 1) : std::vector<uint8_t>()};
		g_ps->n_map++;
		return base;
	}
	static void shade(void *p, size_t n, uint8_t v, const char *cb) {
		uintptr_t a = (uintptr_t)p;
		auto it = g_ps->maps.upper_bound(a);
		if(it == g_ps->maps.begin()) { if(!g_ps->bad) { g_ps->bad = true; g_ps->why = strf("poison-outside-mapping|Policy::%s(%p,%zu) does not lie inside a mapping", cb, p, n); } return; }
		--it;
		if(a + n > it->second.base + it->second.len) { if(!g_ps->bad) { g_ps->bad = true; g_ps->why = strf("poison-outside-mapping|Policy::%s(%p,%zu) runs past its mapping", cb, p, n); } return; }
		for(size_t i = 0; i < n; i++) it->second.poison[a - it->second.base + i] = v;
	}
	void poison(void *p, size_t n) requires POISON { sched::yield_point("policy.poison", n); shade(p, n, 1, "poison"); }
	void unpoison(void *p, size_t n) requires POISON { if(n > sizeof(void *)) sched::yield_point("policy.unpoison", n); shade(p, n, 0, "unpoison"); } // (the per-object link-word calls of slab construction are no scheduling points: 62 of them per slab would only blow up the schedule space)
	void unpoison_expand(void *p, size_t n) requires POISON { sched::yield_point("policy.unpoison_expand", n); shade(p, n, 0, "unpoison_expand"); }
#ifdef C05_TRACE_HOOKS
	// the optional allocation-trace hooks (the pool then compiles its tracing code in): walk_stack and output_trace are scheduling
	// points; every record must be made of the calling worker's own data: its kind of call, its frames, the framing
	bool enable_trace() { return true; }
	template<typename F> void walk_stack(F f) { sched::yield_point("policy.walk_stack", 0); uintptr_t me = (uintptr_t)(sched::t_me + 1); for(uintptr_t i = 0; i < 3; i++) f((me << 12) + i); sched::yield_point("policy.walk_stack.done", 0); }
	void output_trace(void *buffer, size_t n) {
		sched::yield_point("policy.output_trace", n);
		auto *b = (const uint8_t *)buffer; uintptr_t me = (uintptr_t)(sched::t_me + 1);
		auto word = [&](size_t off) { uint64_t w = 0; for(int i = 0; i < 8; i++) w |= (uint64_t)b[off + i] << (8 * i); return w; };
		std::string why;
		size_t hdr = n >= 1 && b[0] == 'a' ? 17 : 9;
		if(n < hdr + 8 || (b[0] != 'a' && b[0] != 'f')) why = "a record without the documented framing";
		else if(!strchr(t_trace_kinds, b[0])) why = strf("a '%c' record written during a call that cannot produce one", b[0]);
		else if(word(n - 8) != 0xA5A5A5A5A5A5A5A5ull) why = "a record without the 0xA5 terminator";
		else for(size_t off = hdr; off + 8 <= n - 8; off += 8) if((word(off) >> 12) != me) { why = strf("a record with a stack frame that walk_stack() gave to worker %llu", (unsigned long long)(word(off) >> 12) - 1); break; }
		if(!why.empty() && !g_ps->bad) { g_ps->bad = true; g_ps->why = "trace-record-mixed|output_trace() of worker " + std::to_string(sched::t_me) + " received " + why; }
		g_trace_records++;
	}
#endif
	void unmap(uintptr_t base, size_t len) {
		no_lock("unmap");
		sched::yield_point("policy.unmap", len);
		auto it = g_ps->maps.find(base);
		if(it == g_ps->maps.end() || it->second.len != len) { if(!g_ps->bad) { g_ps->bad = true; g_ps->why = "unmap-unknown|unmap of a region that is not mapped with this base/length"; } return; }
		void *bk = it->second.bookkeeping;
		munmap(it->second.raw, it->second.rawlen);
		g_ps->maps.erase(it);
		g_ps->n_unmap++;
		if(bk && t_policy_depth == 0) { t_policy_depth++; reentrant_free(bk); t_policy_depth--; }
	}
};
static std::function<void *(size_t)> g_pool_alloc;
static std::function<void(void *)> g_pool_free;
static void *reentrant_alloc(size_t n) { count("reentrant_policy_allocations"); return g_pool_alloc ? g_pool_alloc(n) : nullptr; }
static void reentrant_free(void *p) { if(g_pool_free) g_pool_free(p); }
static bool poisoned_in(uintptr_t a, size_t n, size_t *at) { // any poisoned byte in [a, a+n)?
	auto it = g_ps->maps.upper_bound(a);
	if(it == g_ps->maps.begin()) return false;
	--it;
	if(it->second.poison.empty() || a + n > it->second.base + it->second.len) return false;
	for(size_t i = 0; i < n; i++) if(it->second.poison[a - it->second.base + i]) { *at = i; return true; }
	return false;
}

struct Block { size_t req, size; uint64_t pat; int owner; };
struct Mon {
	std::map<uintptr_t, Block> live;
	bool bad = false; std::string why;
	uint64_t allocs = 0, frees = 0;
	void fail(const std::string &k, const std::string &w) { if(!bad) { bad = true; why = k + "|" + w; } }
};

static uint8_t pat_byte(uint64_t pat, size_t i) { return (uint8_t)((pat >> ((i % 8) * 8)) ^ (i * 37)); }

template<bool POISON, int GEOM = 0>
struct Ctx {
	using Pool = frg::slab_pool<SPolicyT<POISON, GEOM>, sched::SchedMutex>;
	Pool *pool; Mon mon; PolState ps;
	static size_t owned(const Block &b) { return POISON ? b.req : b.size; } // with a poisoning policy only the requested bytes are the caller's
	void poison_check(uintptr_t a, const Block &b, const char *when) {
		size_t at = 0;
		if(POISON && poisoned_in(a, b.req, &at)) mon.fail("live-block-poisoned", strf("byte %zu of the %zu requested bytes of the live block %p (owner: worker %d) is poisoned %s", at, b.req, (void *)a, b.owner, when));
	}
	std::vector<void *> slots; // shared hand-off slots (indices are script parameters)
	uint64_t serial = 0;
	void *do_alloc(int me, size_t n, const char *how = "allocate", void *old = nullptr, size_t old_req = 0) {
		t_map_failed = false;
		t_trace_kinds = old ? "af" : "a";
		void *p = old ? pool->realloc(old, n) : pool->allocate(n);
		t_trace_kinds = "af";
		if(!p && t_map_failed) { count("calls_that_returned_null_after_an_injected_map_failure"); if(old) { /* the source stays valid and live */ Block b{old_req, pool->get_size(old), ++serial * 0x9E3779B97F4A7C15ull, me}; /* still the block of the original request */ mon.live[(uintptr_t)old] = b; for(size_t i = 0; i < owned(b); i++) ((uint8_t *)old)[i] = pat_byte(b.pat, i); return old; } return nullptr; }
		if(!p) { mon.fail("null", strf("%s(%zu) returned null although no map() call of this worker failed", how, n)); return nullptr; }
		uintptr_t a = (uintptr_t)p; size_t s = pool->get_size(p);
		if(s < std::max<size_t>(n, 1)) mon.fail("too-small", strf("%s(%zu) returned a block of reported size %zu", how, n, s));
		auto nx = mon.live.lower_bound(a);
		if(nx != mon.live.end() && nx->first < a + s) mon.fail("handed-out-twice", strf("worker %d: %s(%zu) returned [%p,+%zu) which overlaps the block [%p,+%zu) that worker %d still owns", me, how, n, p, s, (void *)nx->first, nx->second.size, nx->second.owner));
		if(nx != mon.live.begin()) { auto pv = std::prev(nx); if(pv->first + pv->second.size > a) mon.fail("handed-out-twice", strf("worker %d: %s(%zu) returned [%p,+%zu) which overlaps the block [%p,+%zu) that worker %d still owns", me, how, n, p, s, (void *)pv->first, pv->second.size, pv->second.owner)); }
		bool inside = false; for(auto &kv : ps.maps) if(a >= kv.second.base && a + s <= kv.second.base + kv.second.len) inside = true;
		if(!inside) mon.fail("outside-mapping", strf("%s(%zu) returned %p which does not lie inside a live mapping", how, n, p));
		if(mon.bad) return p;
		Block b{n, s, ++serial * 0x9E3779B97F4A7C15ull, me};
		mon.live[a] = b;
		poison_check(a, b, strf("when %s returns it", how).c_str());
		for(size_t i = 0; i < owned(b); i++) ((uint8_t *)p)[i] = pat_byte(b.pat, i); // plain stores by the owner
		mon.allocs++;
		return p;
	}
	bool check_and_forget(void *p, const char *when) {
		auto it = mon.live.find((uintptr_t)p);
		if(it == mon.live.end()) { mon.fail("harness", "free of unknown block"); return false; }
		for(size_t i = 0; i < owned(it->second); i++) if(((uint8_t *)p)[i] != pat_byte(it->second.pat, i)) { mon.fail("content-changed", strf("byte %zu of a live block changed without its owner writing it (%s)", i, when)); break; }
		poison_check(it->first, it->second, when);
		mon.live.erase(it);
		return true;
	}
	void do_free(void *p, bool dealloc) {
		size_t req = mon.live.count((uintptr_t)p) ? mon.live[(uintptr_t)p].req : 0;
		if(!check_and_forget(p, "at free")) return;
		t_trace_kinds = "f";
		if(dealloc) pool->deallocate(p, req); else pool->free(p);
		t_trace_kinds = "af";
		mon.frees++;
	}
};

// script op: kind 0 alloc(size)->slot, 1 free(slot), 2 deallocate(slot), 3 realloc(slot,size)
struct Op { int kind; int slot; size_t size; };
struct Scenario { const char *name; std::vector<std::pair<int, size_t>> prefill; /* (slot, size) */ std::vector<std::vector<Op>> workers; int nslots; bool reentrant = false; bool poison = false; int quick_bound = 3; long fail_at = -1; int geom = 0; };

template<bool POISON, int GEOM = 0>
static void run_world_t(const char *mode, long long idx, const Scenario &sc, sched::Strategy &strat) {
	begin_case(mode, idx);
	Ctx<POISON, GEOM> cx; g_ps = &cx.ps; sched::g_smx = {};
	SPolicyT<POISON, GEOM> pol;
	cx.pool = new typename Ctx<POISON, GEOM>::Pool(pol);
	if(GEOM) count("schedules_with_page_sized_classes");
	g_reentrant = sc.reentrant; t_policy_depth = 0;
	cx.ps.fail_at = sc.fail_at;
	if(sc.fail_at >= 0) count("schedules_with_an_injected_map_failure");
	g_pool_alloc = [&](size_t n) { return cx.pool->allocate(n); }; g_pool_free = [&](void *q) { cx.pool->free(q); };
	if(POISON) count("schedules_with_poisoning_policy");
	cx.slots.assign(sc.nslots, nullptr);
	// prefill by the driver thread
	for(auto &pf : sc.prefill) { void *p = cx.do_alloc(-1, pf.second); if(pf.first >= 0) cx.slots[pf.first] = p; }
	std::string sdesc;
	for(size_t wi = 0; wi < sc.workers.size(); wi++) { sdesc += strf("w%zu:", wi); for(auto &o : sc.workers[wi]) sdesc += o.kind == 0 ? strf("alloc(%zu)->s%d,", o.size, o.slot) : o.kind == 3 ? strf("realloc(s%d,%zu),", o.slot, o.size) : strf("%s(s%d),", o.kind == 1 ? "free" : "dealloc", o.slot); sdesc += " "; }
	sched::World w; w.step_limit = 100000; w.keep_trace = true;
	std::vector<std::function<void()>> bodies;
	for(size_t wi = 0; wi < sc.workers.size(); wi++) bodies.push_back([&, wi] {
		for(auto &o : sc.workers[wi]) {
			sched::yield_point("script.before_op", o.kind);
			if(cx.mon.bad) return;
			if(o.kind == 0) cx.slots[o.slot] = cx.do_alloc((int)wi, o.size);
			else if(o.kind == 3) { void *old = cx.slots[o.slot]; if(!old) continue; cx.slots[o.slot] = nullptr; size_t old_req = cx.mon.live.count((uintptr_t)old) ? cx.mon.live[(uintptr_t)old].req : 0; if(!cx.check_and_forget(old, "before realloc")) continue; /* contents are compared only by the sequential checks (C02) */ cx.slots[o.slot] = cx.do_alloc((int)wi, o.size, "realloc", old, old_req); }
			else { void *p = cx.slots[o.slot]; if(!p) continue; cx.slots[o.slot] = nullptr; cx.do_free(p, o.kind == 2); }
		}
	});
	sched::Outcome out = w.run(bodies, strat);
	count("schedules");
	note_distinct(mix(hash_str(mode), mix(w.sig, hash_str(sdesc))));
	rec.counters["sched_points"] += w.steps; rec.counters["sched_switches"] += w.switches;
	{ static uint64_t max_steps = 0; if(out.kind == sched::Outcome::Ok && w.steps > max_steps) { max_steps = w.steps; rec.notes[std::string("max_points_in_a_completing_schedule:shard") + std::to_string(opt.shard)] = std::to_string(max_steps) + " (budget " + std::to_string(w.step_limit) + ")"; } }
	rec.counters["policy_map_calls"] += cx.ps.n_map;
	if(cx.ps.n_map >= 2 + (sc.prefill.empty() ? 0 : 1)) count("schedules_with_concurrent_slab_construction_or_extra_map");
	std::string tail; for(size_t k = w.trace.size() > 60 ? w.trace.size() - 60 : 0; k < w.trace.size(); k++) tail += w.trace[k] + " ";
	if(idx == 1) sample(std::string(mode) + " schedule #1, scripts {" + sdesc + "} observed points: " + tail.substr(0, 900), 40);
	auto flag = [&](const std::string &key, const std::string &what) {
		if(g_prop == "C03" && key.find("poison") == std::string::npos) { count("unarmed:" + key); return; } // run for C03: only the poisoning verdicts (run for C04: the fault scenarios, every verdict)
		case_detail("%s :: last points: %s", sdesc.c_str(), tail.substr(0, 3000).c_str()); violation(g_prop + ":slab:" + key, what + " [" + std::string(sc.name) + ": " + sdesc + "]"); };
	if(cx.ps.bad) { auto b = cx.ps.why.find('|'); flag(cx.ps.why.substr(0, b), cx.ps.why.substr(b + 1)); }
	else if(cx.mon.bad) { auto b = cx.mon.why.find('|'); flag(cx.mon.why.substr(0, b), cx.mon.why.substr(b + 1)); }
	else if(out.kind == sched::Outcome::Deadlock) flag("deadlock", "a pool call can never return: " + out.detail);
	else if(out.kind == sched::Outcome::Livelock) flag("livelock", out.detail);
	else if(out.kind == sched::Outcome::Panic) flag("assert", "library assertion: " + out.detail);
	else if(out.kind == sched::Outcome::StepLimit) flag("no-progress-step-budget", "a schedule did not finish within the step budget (far above any completing run): " + out.detail);
	else {
		for(size_t i = 0; i < sched::g_smx.held.size(); i++) if(sched::g_smx.held[i]) flag("lock-left-held", "a pool mutex is still held after all calls returned");
		// quiescent check of every remaining live block
		for(auto &kv : cx.mon.live) { bool okp = true; for(size_t i = 0; i < cx.owned(kv.second); i++) if(((uint8_t *)kv.first)[i] != pat_byte(kv.second.pat, i)) okp = false; if(!okp) { flag("content-changed", "a live block's pattern is broken at the end of the run"); break; } }
		for(auto &kv : cx.mon.live) { cx.poison_check(kv.first, kv.second, "at the end of the run (all calls returned)"); if(cx.mon.bad) { auto b = cx.mon.why.find('|'); flag(cx.mon.why.substr(0, b), cx.mon.why.substr(b + 1)); break; } }
	}
	for(auto &kv : cx.ps.maps) munmap(kv.second.raw, kv.second.rawlen);
	if(out.kind == sched::Outcome::Ok) delete cx.pool;
	g_ps = nullptr; g_pool_alloc = nullptr; g_pool_free = nullptr; g_reentrant = false;
}
static void run_world(const char *mode, long long idx, const Scenario &sc, sched::Strategy &strat) {
	if(sc.geom) { if(sc.poison) run_world_t<true, 1>(mode, idx, sc, strat); else run_world_t<false, 1>(mode, idx, sc, strat); }
	else { if(sc.poison) run_world_t<true>(mode, idx, sc, strat); else run_world_t<false>(mode, idx, sc, strat); }
}

static std::vector<Scenario> scenarios() {
	// per slab of the 128-byte class on this geometry: (4096 - overhead 128) / 128 = 31 objects; 64-byte class: 62
	std::vector<std::pair<int, size_t>> full128; for(int i = 0; i < 31; i++) full128.push_back({i < 4 ? i : -1, 128});
	std::vector<std::pair<int, size_t>> almost128; for(int i = 0; i < 30; i++) almost128.push_back({i < 4 ? i : -1, 128});
	std::vector<std::pair<int, size_t>> few128; for(int i = 0; i < 4; i++) few128.push_back({i, 128});
	std::vector<std::pair<int, size_t>> big4; for(int i = 0; i < 4; i++) big4.push_back({i, 8192}); // two slabs: three objects + one
	return {
		{"both-find-class-empty", {}, {{{0, 0, 64}, {1, 0, 0}}, {{0, 1, 64}, {1, 1, 0}}}, 4},
		{"both-find-class-empty-then-free-cross", {}, {{{0, 0, 64}, {0, 2, 64}, {1, 1, 0}}, {{0, 1, 64}, {1, 0, 0}}}, 4},
		{"free-into-full-slab-while-other-allocates", full128, {{{1, 0, 0}}, {{0, 4, 128}, {0, 5, 128}}}, 8},
		{"alloc-fills-slab-while-other-frees", almost128, {{{0, 4, 128}, {0, 5, 128}}, {{2, 0, 0}, {1, 1, 0}}}, 8},
		{"large-and-small", {}, {{{0, 0, 5000}, {1, 0, 0}}, {{0, 1, 8}, {0, 2, 9000}, {1, 2, 0}}}, 4},
		{"realloc-moves-while-other-frees", almost128, {{{3, 0, 300}, {1, 0, 0}}, {{1, 1, 0}, {0, 4, 128}}}, 8},
		{"three-workers-one-class", {}, {{{0, 0, 32}, {1, 0, 0}}, {{0, 1, 32}, {1, 1, 0}}, {{0, 2, 32}, {1, 2, 0}}}, 4},
		{"reentrant-policy:both-find-class-empty", {}, {{{0, 0, 64}, {1, 0, 0}}, {{0, 1, 64}, {1, 1, 0}}}, 4, true},
		{"reentrant-policy:large-alloc-and-free", {}, {{{0, 0, 5000}, {1, 0, 0}}, {{0, 1, 24}, {0, 2, 9000}, {1, 2, 0}}}, 4, true},
		// size classes of a page and more (32K slabs hold three 8192-byte objects): slabs of such a class becoming empty, full, partial
		{"big-class:last-object-of-a-non-head-slab-freed-while-other-allocates", big4, {{{1, 3, 0}, {0, 5, 8192}}, {{0, 4, 8192}, {1, 0, 0}, {1, 1, 0}}}, 8, false, false, 3, -1, 1},
		{"big-class:both-find-class-empty", {}, {{{0, 0, 4096}, {1, 0, 0}}, {{0, 1, 4000}, {1, 1, 0}}}, 4, false, true, 3, -1, 1},
		// an injected map() failure (the failing call is a scheduling point: the other worker runs while map() is "trying"): the call
		// that needed the memory may return null, nothing may break and the pool must keep working once map() works again
		{"fault:new-slab-map-fails-while-other-frees-same-class", full128, {{{0, 4, 128}, {0, 5, 128}, {0, 6, 128}, {1, 4, 0}}, {{1, 0, 0}, {0, 7, 128}}}, 8, false, false, 3, 1},
		{"fault:both-find-class-empty-first-map-fails", {}, {{{0, 0, 64}, {0, 2, 64}, {1, 0, 0}}, {{0, 1, 64}, {1, 1, 0}}}, 4, false, false, 3, 0},
		{"fault:both-find-class-empty-second-map-fails", {}, {{{0, 0, 64}, {0, 2, 64}, {1, 0, 0}}, {{0, 1, 64}, {1, 1, 0}}}, 4, false, false, 3, 1},
		{"fault:large-map-fails-beside-small-traffic", {}, {{{0, 0, 5000}, {0, 1, 5000}, {1, 1, 0}}, {{0, 2, 24}, {0, 3, 9000}, {1, 2, 0}}}, 4, false, true, 3, 1},
		// poisoning policy: every poison/unpoison callback is a scheduling point; the requested bytes of every live block must be unpoisoned
		{"poison:free-while-other-allocates-same-class", few128, {{{1, 0, 0}, {2, 1, 0}}, {{0, 4, 100}, {0, 5, 128}}}, 8, false, true},
		{"poison:both-find-class-empty", {}, {{{0, 0, 60}, {1, 0, 0}}, {{0, 1, 64}, {1, 1, 0}}}, 4, false, true, 3},
		{"poison:realloc-moves-while-other-allocates", few128, {{{3, 0, 300}, {3, 0, 90}}, {{0, 4, 120}, {1, 1, 0}}}, 8, false, true},
		{"poison:large-and-small", {}, {{{0, 0, 5000}, {3, 0, 4100}, {1, 0, 0}}, {{0, 1, 8}, {0, 2, 9000}, {1, 2, 0}}}, 4, false, true, 3},
	};
}

int main(int argc, char **argv) {
	parse_args(argc, argv, "c05_slab_sched");
	sched::g_lock_prop = "C05";
	rec.rule = "a case is one schedule of 2-3 workers running alloc/free/deallocate/realloc scripts on one pool (SchedMutex, 4K slabs so that classes run empty at once); context switches at every pool mutex operation, "
		"hook point and policy callback; monitors: double hand-out, placement, block patterns, policy entered with a pool lock held, deadlock/livelock; distinct = (scenario, schedule signature)";
	bool t = opt.thorough();
	if(opt.replay_arg.rfind("prop=", 0) == 0) g_prop = opt.replay_arg.substr(5);
	auto scs = scenarios();
	unsigned di = 0;
	for(auto &sc : scs) {
		if(g_prop == "C03" && !sc.poison) continue;
		if(g_prop == "C04" && sc.fail_at < 0) continue;
		std::string mode = std::string("dfs:") + sc.name;
		if(!want_mode(mode.c_str()) || (opt.mode.empty() && (di++ % opt.nshards) != opt.shard)) continue;
		int bound = sc.workers.size() > 2 ? (t ? 3 : 2) : (t ? (sc.quick_bound == 2 ? 3 : 4) : sc.quick_bound);
		sched::Dfs dfs(bound);
		long long i = 0; bool complete = false; uint64_t cap = t ? 1500000 : 60000;
		do {
			run_world(mode.c_str(), i, sc, dfs);
			i++;
			if(!rec.violations.empty()) break;
			if(!dfs.advance()) { complete = true; break; }
		} while((uint64_t)i < cap);
		rec.notes[mode] = strf("preemption bound %d: %lld schedules, %s", bound, i, complete ? "space exhausted" : "CUT SHORT at the run cap");
		count(complete ? "dfs_spaces_exhausted" : "dfs_spaces_cut_short");
	}
	if(want_mode("pct")) {
		Rng sr(derive_seed("pct"));
		uint64_t n = scaled(500, 20000);
		for(uint64_t i = 0; i < n; i++) {
			uint64_t cs = sr.next();
			if(!want_case(i)) continue;
			Rng r(cs);
			Scenario sc; sc.name = "random-scripts"; sc.nslots = 12; sc.reentrant = r.chance(1, 3); sc.poison = (g_prop == "C03") || r.chance(1, 2); if(g_prop == "C04" || r.chance(1, 4)) sc.fail_at = r.below(4); sc.geom = r.chance(1, 3);
			int nw = 2 + r.below(2);
			for(size_t k = r.below(3) ? 0 : 28 + r.below(5); k; k--) sc.prefill.push_back({k <= 4 ? (int)k - 1 : -1, 128});
			sc.workers.resize(nw);
			for(auto &ws : sc.workers) for(size_t k = 2 + r.below(7); k; k--) {
				int z = r.below(10); int slot = r.below(sc.nslots);
				size_t size = sc.geom ? r.pick(std::vector<size_t>{8, 128, 4096, 4096, 8192, 8192, 8192, 2049, 9000, 40000}) : r.pick(std::vector<size_t>{1, 8, 64, 128, 128, 128, 129, 3000, 4096, 9000});
				ws.push_back(z < 5 ? Op{0, slot, size} : z < 7 ? Op{1, slot, 0} : z < 9 ? Op{2, slot, 0} : Op{3, slot, size});
			}
			// an alloc into an occupied slot would leak a live block from the monitor's view: scripts free the slot first
			for(auto &ws : sc.workers) { std::vector<Op> fixed; for(auto &o : ws) { if(o.kind == 0) fixed.push_back({1, o.slot, 0}); fixed.push_back(o); } ws = fixed; }
			if(r.chance(1, 2)) { sched::Pct s(cs, 1 + r.below(3), 60 * nw); run_world("pct", i, sc, s); }
			else { sched::RandomWalk s(cs, 1, 2 + r.below(4)); run_world("pct", i, sc, s); }
		}
	}
	sample("dfs:both-find-class-empty: fresh pool; w0: alloc(64), free || w1: alloc(64), free; both find the 64-byte class without a slab, drop the bucket lock, call Policy::map and re-take the lock to attach their slab; all schedules with <= 3 preemptions");
	if(g_trace_records) count("policy_trace_records", g_trace_records);
	return finish();
}
