// C07: frg::interval_tree::for_overlaps vs brute force over the reference multiset, after any insert/remove history.
#include "common/verif.hpp"
#include <frg/interval_tree.hpp>
#include <vector>
#include <algorithm>
#include <map>

using namespace verif;

template<typename P>
struct INode {
	P lo, hi;
	int id;
	frg::rbtree_hook rb;
	frg::interval_hook<P> ih;
};

template<typename P>
using ITree = frg::interval_tree<INode<P>, P, &INode<P>::lo, &INode<P>::hi, &INode<P>::rb, &INode<P>::ih>;

static bool g_bad = false;
static std::string g_trace;

static void fail(const std::string &kind, const std::string &msg) {
	if(g_bad) return; g_bad = true;
	case_detail("%s", g_trace.substr(0, 3500).c_str());
	violation("C07:model:interval_tree:" + kind, msg + " after [" + g_trace.substr(0, 500) + "]");
}

// one query against brute force; `point` uses the one-argument form
template<typename P>
static void query(ITree<P> &tree, const std::vector<INode<P> *> &live, P lb, P ub, bool point) {
	if(g_bad) return;
	std::vector<int> hits;
	auto cb = [&](INode<P> *n) { hits.push_back(n->id); };
	// every third query passes its bounds as variables that the callback itself overwrites while the query runs (the accumulator
	// idiom: `reach = max(reach, n->hi)`): the bounds of a query are the values given at the call
	static uint64_t qn = 0;
	if(++qn % 3 == 0) {
		P vlb = lb, vub = ub;
		auto cb2 = [&](INode<P> *n) { hits.push_back(n->id); vlb = n->lo; vub = n->hi; };
		if(point) tree.for_overlaps(cb2, vlb); else tree.for_overlaps(cb2, vlb, vub);
		count("queries_whose_callback_overwrites_the_bound_variables");
	} else if(point) tree.for_overlaps(cb, lb); else tree.for_overlaps(cb, lb, ub);
	std::vector<int> exp;
	for(auto *n : live) if(n->lo <= ub && lb <= n->hi) exp.push_back(n->id);
	std::sort(hits.begin(), hits.end()); std::sort(exp.begin(), exp.end());
	count("queries");
	if(!exp.empty()) count("queries_with_hits");
	if(hits == exp) return;
	// classify
	std::vector<int> dup = hits; dup.erase(std::unique(dup.begin(), dup.end()), dup.end());
	std::string kind = dup.size() != hits.size() ? "reported-twice" : std::includes(exp.begin(), exp.end(), hits.begin(), hits.end()) ? "missed" : "spurious";
	std::string ls;
	for(auto *n : live) ls += strf("[%lld,%lld]#%d ", (long long)n->lo, (long long)n->hi, n->id);
	fail(kind, strf("for_overlaps(%lld,%lld)%s reported %zu intervals, brute force finds %zu; stored: %s", (long long)lb, (long long)ub, point ? " (one-argument form)" : "", hits.size(), exp.size(), ls.substr(0, 400).c_str()));
}

template<typename P>
static void all_queries(ITree<P> &tree, const std::vector<INode<P> *> &live, int lo, int hi) {
	for(int lb = lo; lb <= hi && !g_bad; lb++) {
		for(int ub = lb; ub <= hi && !g_bad; ub++) query<P>(tree, live, (P)lb, (P)ub, false);
		query<P>(tree, live, (P)lb, (P)lb, true);
	}
}

// ------------------------------------------------------------------ exhaustive over endpoint universe {0..U-1}
// `shift`: every endpoint and query bound is moved by it (negative: the universe straddles or lies below zero)
static void exhaustive(const char *mode, int U, int len, uint64_t stride, int shift = 0) {
	if(!want_mode(mode)) return;
	std::vector<std::pair<int, int>> ivs;
	for(int a = 0; a < U; a++) for(int b = a; b < U; b++) ivs.push_back({a + shift, b + shift});
	uint64_t A = ivs.size(), total = 1;
	for(int i = 0; i < len; i++) total *= A;
	using P = int;
	std::vector<INode<P>> pool(len);
	for(uint64_t x = opt.shard * stride; x < total; x += opt.nshards * stride) {
		if(!want_case(x)) continue;
		begin_case(mode, x);
		g_bad = false; g_trace.clear();
		for(auto &p : pool) { new (&p.rb) frg::rbtree_hook(); p.ih.subtree_max = 0; } // hooks may be dirty after a failed case
		bool ok = guarded("C07", [&] {
			ITree<P> tree;
			std::vector<INode<P> *> live;
			uint64_t y = x;
			for(int i = 0; i < len && !g_bad; i++) {
				auto iv = ivs[y % A]; y /= A;
				pool[i].lo = iv.first; pool[i].hi = iv.second; pool[i].id = i;
				g_trace += strf("ins[%d,%d]#%d ", iv.first, iv.second, i);
				tree.insert(&pool[i]); live.push_back(&pool[i]);
			}
			all_queries<P>(tree, live, -1 + shift, U + shift);
			// every single removal followed by all queries again, then restore
			for(int i = 0; i < len && !g_bad; i++) {
				g_trace += strf("rem#%d ", i);
				tree.remove(&pool[i]);
				std::vector<INode<P> *> l2; for(auto *n : live) if(n != &pool[i]) l2.push_back(n);
				all_queries<P>(tree, l2, -1 + shift, U + shift);
				g_trace += strf("reins#%d ", i);
				tree.insert(&pool[i]);
				all_queries<P>(tree, live, shift, U - 1 + shift);
			}
			// drain in insertion order with queries in between
			for(int i = 0; i < len && !g_bad; i++) {
				g_trace += strf("rem#%d ", i);
				tree.remove(&pool[i]); live.erase(live.begin());
				all_queries<P>(tree, live, shift, U - 1 + shift);
			}
		});
		(void)ok;
		note_distinct(mix(hash_str(mode), x));
		count("exhaustive_histories");
	}
	rec.notes[mode] = strf("sequences of %d closed intervals over endpoints %d..%d (%llu total, stride %llu): all query pairs in %d..%d + one-argument form, after building, after every single removal and re-insertion",
		len, shift, U - 1 + shift, (unsigned long long)total, (unsigned long long)stride, -1 + shift, U + shift);
}

// ------------------------------------------------------------------ random
template<typename P>
static void random_histories(const char *mode, uint64_t ncases, size_t maxn, unsigned nops, unsigned nqueries, bool negative = false) {
	if(!want_mode(mode)) return;
	Rng sr(derive_seed(mode));
	for(uint64_t c = 0; c < ncases; c++) {
		uint64_t cs = sr.next();
		if(!want_case(c)) continue;
		begin_case(mode, c);
		g_bad = false; g_trace.clear();
		Rng r(cs);
		size_t N = 2 + r.below(maxn);
		int gen = r.below(5);
		uint64_t span = gen == 4 ? ~0ull >> (std::is_signed_v<P> ? 34 : 1) : (uint64_t)(10 + r.below(N * 3));
		// signed point types: the whole universe is moved so that it lies below zero, straddles it, or ends exactly at -1 / 0
		int64_t off = 0;
		if(negative && std::is_signed_v<P>) { if(gen == 4) span = 1000000; switch(r.below(4)) { case 0: off = (int64_t)span * 2 + 7; break; case 1: off = (int64_t)span / 2; break; case 2: off = (int64_t)span + 1; break; default: off = (int64_t)span; break; } }
		if constexpr (std::is_integral_v<P> && sizeof(P) < 4) { span = std::min<uint64_t>(span, 4000); if(off > 9000) off = 9000; } // (endpoints must fit the point type: lo <= hi is a precondition)
		case_detail("N=%zu gen=%d span=%llu offset=-%lld seed=%llu", N, gen, (unsigned long long)span, (long long)off, (unsigned long long)cs);
		std::vector<INode<P>> pool(N);
		std::vector<INode<P> *> out, live;
		for(size_t i = 0; i < N; i++) {
			uint64_t a, b;
			switch(gen) {
			case 0: a = r.below(span); b = a + r.below(span / 4 + 1); break;                 // random
			case 1: a = i % (span / 2 + 1); b = span - a; if(b < a) std::swap(a, b); break;   // nested
			case 2: a = (i * 3) % span; b = a + 3; break;                                     // touching chain [0,3],[3,6],...
			case 3: a = r.below(4); b = a + r.below(3); break;                                // duplicate-heavy
			default: a = r.next() % span; b = a + r.next() % (span - a + 1 ? span - a + 1 : 1); break; // huge endpoints
			}
			if(r.chance(1, 8)) b = a; // points
			pool[i].lo = (P)a; pool[i].hi = (P)b; pool[i].id = (int)i;
			if(off) { pool[i].lo = (P)((int64_t)a - off); pool[i].hi = (P)((int64_t)b - off); }
			out.push_back(&pool[i]);
		}
		bool ok = guarded("C07", [&] {
			ITree<P> tree;
			auto do_queries = [&](unsigned n) {
				for(unsigned q = 0; q < n && !g_bad; q++) {
					P lb, ub;
					if(!live.empty() && r.chance(2, 3)) {
						auto *n1 = live[r.below(live.size())];
						switch(r.below(6)) {
						case 0: lb = n1->hi; ub = n1->hi; break;            // touching upper end
						case 1: lb = n1->lo; ub = n1->lo; break;            // touching lower end
						case 2: lb = n1->hi; ub = (P)(n1->hi + (P)r.below(5)); break;
						case 3: ub = n1->lo; lb = (P)((n1->lo >= (P)3 || off) ? n1->lo - (P)r.below(3) : n1->lo); break;
						case 4: lb = n1->lo; ub = n1->hi; break;
						default: lb = (P)(n1->hi + 1); ub = (P)(n1->hi + 1 + (P)r.below(4)); if(ub < lb) { lb = n1->hi; ub = n1->hi; } break; // just after
						}
					} else { uint64_t a = r.below(span + 5), b = a + r.below(span / 3 + 2); lb = (P)((int64_t)a - off); ub = (P)((int64_t)b - off); if(ub < lb) ub = lb; }
					query<P>(tree, live, lb, ub, lb == ub && r.chance(1, 2));
				}
			};
			for(unsigned i = 0; i < nops && !g_bad; i++) {
				bool ins = live.empty() || (!out.empty() && r.chance(3, 5));
				if(ins) {
					size_t k = r.below(out.size()); auto *x = out[k]; out.erase(out.begin() + k);
					if(g_trace.size() < 3000) g_trace += strf("ins[%lld,%lld]#%d ", (long long)x->lo, (long long)x->hi, x->id);
					tree.insert(x); live.push_back(x);
				} else {
					size_t k = r.below(live.size()); auto *x = live[k]; live.erase(live.begin() + k);
					if(g_trace.size() < 3000) g_trace += strf("rem#%d ", x->id);
					tree.remove(x); out.push_back(x);
				}
				do_queries(live.size() < 30 ? 6 : 1);
			}
			do_queries(nqueries);
			while(!live.empty() && !g_bad) { auto *x = live.back(); live.pop_back(); tree.remove(x); if(live.size() % 16 == 0) do_queries(4); }
		});
		(void)ok;
		note_distinct(mix(hash_str(mode), cs));
		count("random_histories");
	}
}

// ------------------------------------------------------------------ a class-type point (copies are copies, moves leave the source changed)
struct ClassPoint {
	long long v;
	ClassPoint(long long x = 0) : v(x) {}
	ClassPoint(const ClassPoint &) = default;
	ClassPoint &operator=(const ClassPoint &) = default;
	ClassPoint(ClassPoint &&o) : v(o.v) { o.v = -(1ll << 40); }                       // like a string or a bignum: the source is emptied
	ClassPoint &operator=(ClassPoint &&o) { v = o.v; if(&o != this) o.v = -(1ll << 40); return *this; }
	explicit operator long long() const { return v; }
	bool operator<(const ClassPoint &o) const { return v < o.v; }
	bool operator<=(const ClassPoint &o) const { return v <= o.v; }
	bool operator>(const ClassPoint &o) const { return v > o.v; }
	bool operator>=(const ClassPoint &o) const { return v >= o.v; }
	bool operator==(const ClassPoint &o) const { return v == o.v; }
};
static void class_point_battery() {
	if(!want_mode("class-point")) return;
	using P = ClassPoint;
	Rng r(derive_seed("class-point"));
	for(uint64_t c = opt.shard; c < scaled(300, 6000); c += opt.nshards) {
		begin_case("class-point", c);
		g_bad = false; g_trace.clear();
		size_t N = 1 + r.below(12);
		std::vector<INode<P>> pool(N);
		guarded("C07", [&] {
			ITree<P> tree; std::vector<INode<P> *> live;
			for(size_t i = 0; i < N; i++) { long long a = (long long)r.below(16) - 5, b = a + (long long)r.below(6); if(r.chance(1, 6)) b = a; pool[i].lo = P(a); pool[i].hi = P(b); pool[i].id = (int)i; g_trace += strf("ins[%lld,%lld]#%zu ", a, b, i); tree.insert(&pool[i]); live.push_back(&pool[i]); }
			all_queries<P>(tree, live, -7, 13);
			for(size_t i = 0; i < N && !g_bad; i += 2) { g_trace += strf("rem#%zu ", i); tree.remove(&pool[i]); live.erase(std::find(live.begin(), live.end(), &pool[i])); }
			all_queries<P>(tree, live, -7, 13);
			for(auto *n : live) tree.remove(n);
		});
		note_distinct(mix(hash_str("class-point"), c)); count("class_point_histories");
	}
}

// ---- the tallest trees a red-black tree can grow: regions inserted in descending address order (a top-down address-space allocator)
// give a left spine of about 2*log2(n) nodes; with 600000 intervals the tree is 36-37 levels high, more than log2(n) by far.
// Wide queries walk down both sides of every level.
static void tall_tree() {
	if(!want_mode("tall")) return;
	Rng r(derive_seed("tall"));
	uint64_t ncases = opt.thorough() ? 3 : 1; // per shard
	for(uint64_t c = 0; c < ncases; c++) {
		if(!want_case(c)) continue;
		begin_case("tall", c);
		g_bad = false; g_trace = "tall tree";
		guarded("C07", [&] {
			size_t n = 450000 + r.below(250000);
			std::vector<INode<int64_t>> pool(n);
			ITree<int64_t> tree;
			std::vector<INode<int64_t> *> live; live.reserve(n);
			int64_t top = (int64_t)n * 16;
			for(size_t i = 0; i < n; i++) { auto &nd = pool[i]; nd.lo = top - (int64_t)(i + 1) * 16; nd.hi = nd.lo + 7 + (int64_t)(i % 5); nd.id = (int)i; tree.insert(&nd); live.push_back(&nd); }
			// unmap some of the oldest regions (the high end): the low spine stays as tall as it is
			size_t nrem = r.below(200);
			for(size_t k = 0; k < nrem; k++) { size_t i = r.below(1000); auto it = std::find(live.begin(), live.begin() + 1000, &pool[i]); if(it != live.begin() + 1000 && *it == &pool[i]) { tree.remove(&pool[i]); *it = live.back(); live.pop_back(); } }
			// depth of the deepest of the most recently inserted (lowest) regions, through the hooks' parent links
			size_t height = 0;
			for(size_t i = n - std::min<size_t>(n, 3000); i < n; i++) { size_t d = 1; for(void *p = pool[i].rb.parent; p; p = ((INode<int64_t> *)p)->rb.parent) d++; height = std::max(height, d); }
			if(height > rec.counters["tallest_interval_tree_levels"]) rec.counters["tallest_interval_tree_levels"] = height;
			int64_t x = (int64_t)r.below((uint64_t)top);
			query<int64_t>(tree, live, 0, top, false);          // everything
			query<int64_t>(tree, live, x, top, false);          // [x, top]
			query<int64_t>(tree, live, 0, x, false);            // [0, x]
			query<int64_t>(tree, live, x, x + 100, false);
			query<int64_t>(tree, live, x, x, true);
			for(auto *nd : live) tree.remove(nd);
		});
		note_distinct(mix(hash_str("tall"), c * 1000 + opt.shard)); count("tall_tree_histories");
	}
}

int main(int argc, char **argv) {
	parse_args(argc, argv, "c07_interval");
	rec.rule = "a case is one insert/remove history over closed intervals; after the operations the set of nodes passed to the for_overlaps callback is compared (as a multiset, each exactly once) "
		"with brute force over the stored intervals for many query intervals; distinct = (mode, history index/seed)";
	bool t = opt.thorough();
	exhaustive("exh:len1", 6, 1, 1);
	exhaustive("exh:len2", 6, 2, 1);
	exhaustive("exh:len3", 6, 3, 1);
	exhaustive("exh:len4", 6, 4, t ? 1 : 13);   // quick: every 13th sequence of length 4; thorough: all 194481
	if(t) exhaustive("exh:len5", 5, 5, 7);
	exhaustive("exh:len3-negative", 6, 3, 1, -6);  // endpoints -6..-1
	exhaustive("exh:len3-straddle", 6, 3, 1, -3);  // endpoints -3..2
	exhaustive("exh:len4-straddle", 6, 4, t ? 1 : 17, -4);
	random_histories<int>("rand:int", scaled(120, 3000), 200, 300, 200);
	random_histories<int>("rand:int-negative", scaled(120, 3000), 200, 300, 200, true);
	random_histories<int64_t>("rand:i64-negative", scaled(60, 1500), 200, 300, 200, true);
	random_histories<double>("rand:double-negative", scaled(60, 1500), 200, 300, 200, true); // point types are a template parameter: floating point too
	random_histories<double>("rand:double", scaled(30, 800), 200, 300, 200);
	class_point_battery();
	tall_tree();
	random_histories<short>("rand:short-negative", scaled(30, 800), 60, 200, 150, true);
	random_histories<uint64_t>("rand:u64", scaled(120, 3000), 200, 300, 200);
	random_histories<int>("rand:int-large", scaled(4, 100), t ? 5000 : 1500, t ? 12000 : 3000, t ? 5000 : 600);
	random_histories<uint64_t>("rand:u64-large", scaled(4, 100), t ? 5000 : 1500, t ? 12000 : 3000, t ? 5000 : 600);
	sample("exh:len3 x=1234: three intervals over endpoints 0..5 inserted in that order; all 36 (lb<=ub) queries in -1..6 + one-argument form; each single removal and re-insertion followed by all queries");
	sample("rand:u64: up to 200 intervals (random / nested / touching chain / duplicate-heavy / huge endpoints, 1/8 points), queries anchored at stored endpoints (touching, just after, spanning)");
	return finish();
}
