// C10 (E2): rcu_radixtree, one writer and 3-6 free-running finder threads under ThreadSanitizer.
// Node and value fields are plain data: every missing release/acquire edge on the publication path is a data race.
// Logic oracle: every non-null result carries the requested key and an intact check word; keys flagged "inserted for good"
// (relaxed flag, adds no happens-before edge) must be found.
#define VERIF_OWN_HOOK
#include "common/verif.hpp"
#include <frg/rcu_radixtree.hpp>
#include <thread>
#include <atomic>
#include <vector>
#include <memory>
#include <algorithm>

using namespace verif;

static thread_local uint64_t t_jit = 2463534242ull;
static unsigned g_jitter_den = 16;
extern "C" void frg_verif_point(const char *, const void *, unsigned long) {
	t_jit ^= t_jit << 13; t_jit ^= t_jit >> 7; t_jit ^= t_jit << 17;
	if(t_jit % g_jitter_den == 0) { if(t_jit & 0x100) sched_yield(); else for(volatile int i = 0; i < (int)((t_jit >> 12) & 0xff); i++) {} }
}

struct Val {
	uint64_t key, version, check; // plain
	Val(uint64_t k, uint64_t v) : key(k), version(v), check(mix(k, v)) {}
#ifndef C10_TRIVIAL_VALUE // (the drivers are built twice: a trivially destructible payload takes other `if constexpr` paths of a container than one with a destructor)
	~Val() { check = 0xDEADDEADDEADDEADull; key = ~key; } // the end of the value's lifetime is observable: plain stores (a reader that can still reach the value races with them / sees a value that is not intact)
#endif
};
struct JunkAlloc {
	void *allocate(size_t n) { void *p = malloc(n); memset(p, 0xCD, n); return p; }
	void deallocate(void *p, size_t) { free(p); }
	void free(void *p) { ::free(p); }
};
#ifdef C10_SCALAR_VALUE
// a scalar payload (what a page cache keeps: a pointer per key). The entry itself is then a single word; the reader's plain read of
// that word must still be ordered after the writer's construction of it.
using Stored = Val *;
static inline Val *deref(Stored *p) { return *p; }
#else
using Stored = Val;
static inline Val *deref(Stored *p) { return p; }
#endif
using Tree = frg::rcu_radixtree<Stored, JunkAlloc>;

static std::atomic<uint64_t> g_bad_value{0}, g_wrong_key{0}, g_lost{0};

static void lifetime(long long idx, int nreaders, unsigned nkeys) {
	begin_case("tsan:lifetime", idx);
	Tree *tree = new Tree();
	Rng r(derive_seed("tsan", idx));
	// adversarial keys: a base with neighbours that first differ at every nibble, dense leaf runs, extremes
	std::vector<uint64_t> keys;
	uint64_t base = r.next();
	for(int d = 0; d < 16; d++) keys.push_back(base ^ ((1 + r.below(15)) << (60 - 4 * d)));
	for(int i = 0; i < 8; i++) keys.push_back((base & ~0xFull) | i);
	keys.push_back(0); keys.push_back(~0ull); keys.push_back(base);
	while(keys.size() < nkeys) keys.push_back(r.next() >> (4 * r.below(12)));
	std::sort(keys.begin(), keys.end()); keys.erase(std::unique(keys.begin(), keys.end()), keys.end());
	for(size_t k = keys.size(); k > 1; k--) std::swap(keys[k - 1], keys[r.below(k)]);
	size_t n = keys.size();
	std::unique_ptr<std::atomic<int>[]> state(new std::atomic<int>[n]); // 0 absent, 1 inserted for good (relaxed: no HB edge), 2 in flux
	for(size_t i = 0; i < n; i++) state[i].store(0, std::memory_order_relaxed);
	std::atomic<bool> stop{false};
	std::atomic<uint64_t> finds{0}, hits{0};
	std::vector<std::unique_ptr<Val>> owned; owned.reserve(n); (void)owned; // (scalar-payload build: the pointees outlive the readers)
	std::vector<std::thread> th;
	for(int t = 0; t < nreaders; t++) th.emplace_back([&, t] {
		t_jit = 999331 * (t + 1) + idx;
		uint64_t mine = 0, myhits = 0, x = t_jit;
		while(!stop.load(std::memory_order_relaxed)) {
			x ^= x << 13; x ^= x >> 7; x ^= x << 17;
			size_t i = x % n;
			int st = state[i].load(std::memory_order_relaxed);
			Stored *sp = tree->find(keys[i]);
			Val *v = sp ? deref(sp) : nullptr;
			mine++;
			if(v) {
				myhits++;
				uint64_t k = v->key, ver = v->version, chk = v->check; // plain reads
				if(chk != mix(k, ver)) g_bad_value++;
				else if(k != keys[i]) g_wrong_key++;
			} else if(st == 1 && i % 3 != 0) g_lost++; // (keys with i % 3 == 0 are erased later: the flag may be stale by the time find() runs)
		}
		finds += mine; hits += myhits;
	});
	{
		t_jit = 31337 + idx;
		uint64_t version = 1;
		// phase 1: insert every key for good; phase 2: erase a third of them (flagged in flux first)
		for(size_t i = 0; i < n; i++) {
#ifdef C10_SCALAR_VALUE
			owned.emplace_back(new Val(keys[i], version++)); tree->insert(keys[i], owned.back().get());
#else
			tree->insert(keys[i], keys[i], version++);
#endif
			state[i].store(1, std::memory_order_relaxed);
			if(i % 8 == 0) std::this_thread::yield();
		}
		for(size_t i = 0; i < n; i += 3) { state[i].store(2, std::memory_order_relaxed); tree->erase(keys[i]); }
		for(int spin = 0; spin < 20000; spin++) { volatile int z = spin; (void)z; }
		stop.store(true, std::memory_order_relaxed);
	}
	for(auto &x : th) x.join();
	count("tsan_finds", finds.load()); count("tsan_hits", hits.load()); count("tsan_tree_lifetimes");
	if(g_bad_value.load()) violation("C10:threads:partial-value", strf("%llu finds returned a value whose check word does not match (not fully initialised)", (unsigned long long)g_bad_value.load()));
	if(g_wrong_key.load()) violation("C10:threads:wrong-key", strf("%llu finds returned the value of another key", (unsigned long long)g_wrong_key.load()));
	if(g_lost.load()) violation("C10:threads:lost-present-key", strf("%llu finds of keys that were inserted for good returned null", (unsigned long long)g_lost.load()));
	delete tree;
	note_distinct(mix(hash_str("tsan:lifetime"), idx));
}

int main(int argc, char **argv) {
	parse_args(argc, argv, "c10_tsan");
	start_inconclusive_watchdog(opt.thorough() ? 3000 : 150);
	rec.rule = "a case is one tree lifetime: a single writer inserts (then partly erases) adversarial keys while 3-6 threads call find(); ThreadSanitizer watches the plain node/value fields; distinct = lifetime index";
	uint64_t runs = scaled(60, 1200);
	for(uint64_t i = 0; i < runs; i++) {
		long long idx = i * opt.nshards + opt.shard;
		g_jitter_den = (i % 2) ? 4 : 24;
		lifetime(idx, 3 + idx % 4, 40 + (idx % 5) * 30);
	}
	sample("tsan:lifetime: writer inserts ~100 keys (neighbours differing at each of the 16 nibbles, a dense leaf run, 0, 2^64-1) then erases a third; 3-6 readers hammer find() on the same keys; jitter between value construction and publication");
	return finish();
}
