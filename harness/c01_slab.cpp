// C01 / C02 / C03 / C04 (+ the single-threaded part of C05): frg::slab_pool observed through its API boundary and through a
// ShadowPolicy (mapping registry, poison shadow forwarded to ASan, fault countdown).
//   --arg prop=C01|C02|C03|C04 selects which oracle family is reported (the others are only counted);
//   sanitizer reports and library assertions count for the property being checked.
#include <new>
#include "common/verif.hpp"
#include "common/slab_shadow.hpp"
#include <frg/slab.hpp>
#include <frg/spinlock.hpp>
#include <map>
#include <algorithm>

using namespace verif;

static std::string g_prop = "C01";
static std::string g_trace;
static bool g_case_bad = false;

// `model_still_sound`: the deviation leaves the shadow model usable (the caller established that), so a check that is armed for
// *another* property keeps driving this history and can observe what the deviation does to its own property later on.
static void flag(const char *prop, const std::string &kind, const std::string &msg, bool model_still_sound = false) {
	count(std::string("flagged:") + prop);
	bool own = (g_prop == prop);
	if(own || g_prop == "C04" || !model_still_sound) g_case_bad = true;
	if(own || g_prop == "C04") {
		// in the fault-injection check every C01-C03 oracle stays armed: what they flag there is a C04 violation
		case_detail("%s", g_trace.substr(g_trace.size() > 3000 ? g_trace.size() - 3000 : 0).c_str());
		violation(own ? std::string(prop) + ":slab:" + kind : "C04:via-" + std::string(prop) + ":slab:" + kind, msg);
	} else count(std::string("unarmed:") + prop + ":" + kind);
}

static size_t pow2ceil(size_t v) { size_t p = 1; while(p < v) p <<= 1; return p; }

struct Block { size_t req, size; uint64_t pat; int cls; uintptr_t mapping; bool large; };

template<typename Policy, typename Mutex>
struct Model {
	using Pool = frg::slab_pool<Policy, Mutex>;
	ShadowState st;
	Policy policy{st};
	Pool *pool;
	std::map<uintptr_t, Block> live;
	// footprint (C02)
	std::map<size_t, size_t> live_c, peak_c, maps_c, per_slab; // keyed by class size
	size_t pages_slab_sum = 0;
	long faults_seen = 0;
	uint64_t ops = 0;

	// every other history goes through the frg::slab_allocator front end (allocate/free/deallocate/reallocate/get_size) instead of
	// calling the pool directly: the wrapper is part of the allocator's interface, and what it adds must keep the same promises
	static inline uint64_t s_models = 0;
	bool via_wrapper = false;
	frg::slab_allocator<Policy, Mutex> *wrap = nullptr;
	void *api_allocate(size_t n) { return via_wrapper ? wrap->allocate(n) : pool->allocate(n); }
	void *api_realloc(void *p, size_t n) { return via_wrapper ? wrap->reallocate(p, n) : pool->realloc(p, n); }
	void api_free(void *p) { if(via_wrapper) wrap->free(p); else pool->free(p); }
	void api_deallocate(void *p, size_t n) { if(via_wrapper) wrap->deallocate(p, n); else pool->deallocate(p, n); }
	size_t api_get_size(void *p) { return via_wrapper ? wrap->get_size(p) : pool->get_size(p); }
	Model() { pool = new Pool(policy); via_wrapper = (s_models++ % 2) == 1; wrap = new frg::slab_allocator<Policy, Mutex>(pool); if(via_wrapper) count("histories_through_slab_allocator"); g_shadow = &st; st.protocol_flag = [](const std::string &k, const std::string &m) { flag("C03", "protocol:" + k, m); }; }
	~Model() { delete wrap; delete pool; shadow_release_all(st); g_shadow = nullptr; }

	static uint8_t pat_byte(uint64_t pat, size_t i) { return (uint8_t)((pat >> ((i % 8) * 8)) ^ (i * 131)); }
	size_t writable(const Block &b) const { return Policy::poisoning ? b.req : std::max(b.req, b.size); } // beyond the request, poisoned bytes are not the caller's
	// Block contents are the caller's business: a third of the blocks start with the address of another live block of the same slab
	// (what the nodes of an intrusive list hold) - a pool that inspects user data to guess at double frees and the like trips here.
	// The pattern generator makes the first word (pat ^ K); choosing pat = target ^ K puts the pointer there.
	static uint64_t pat_for_first_word(uint64_t target) { uint64_t k = 0; for(size_t i = 0; i < 8; i++) k |= (uint64_t)(uint8_t)(i * 131) << (8 * i); return target ^ k; }
	void maybe_pointer_content(uintptr_t p, Block &b) {
		if(ops % 3 != 0 || writable(b) < 8 || b.large) return;
		auto it = live.find(p);
		uintptr_t target = 0;
		if(it != live.end()) {
			auto nx = std::next(it);
			if(nx != live.end() && nx->second.mapping == b.mapping && !nx->second.large) target = nx->first;
			else if(it != live.begin()) { auto pv = std::prev(it); if(pv->second.mapping == b.mapping && !pv->second.large) target = pv->first; }
		}
		if(!target) target = p; // a self-pointer (one-element circular list)
		b.pat = pat_for_first_word(target);
		count("blocks_holding_a_pointer_into_their_own_slab");
	}
	void fill(uintptr_t p, const Block &b) { auto *d = (uint8_t *)p; size_t n = writable(b); for(size_t i = 0; i < n; i++) d[i] = pat_byte(b.pat, i); }
	bool verify(uintptr_t p, const Block &b, size_t upto, const char *when) {
		auto *d = (uint8_t *)p; size_t n = std::min(writable(b), upto);
		for(size_t i = 0; i < n; i++) if(d[i] != pat_byte(b.pat, i)) {
			flag("C02", "content-changed", strf("byte %zu of the live block %p (request %zu, size %zu) changed without its owner writing it (%s)", i, (void *)p, b.req, b.size, when));
			return false;
		}
		return true;
	}

	void begin_op() { st.created_in_op.clear(); st.destroyed_in_op.clear(); st.destroyed_ranges.clear(); gone.clear(); pages_before = pool->numUsedPages(); ops++; }
	size_t pages_before = 0;

	// page accounting (C03): the counter changes only in operations that created/destroyed a mapping; the increment of a
	// mapping is remembered and must be given back exactly at its unmap
	void end_op_accounting(const char *opname) {
		// a region may be unmapped only when no live block lies inside it
		for(auto &rg : st.destroyed_ranges) {
			auto it = live.lower_bound(rg.first);
			if(it != live.begin()) { auto pv = std::prev(it); if(pv->first + pv->second.size > rg.first) it = pv; }
			if(it != live.end() && it->first < rg.first + rg.second)
				flag("C03", "unmap-with-live-block", strf("%s unmapped [%#lx,+%zu) while the live block %p lies inside it", opname, (unsigned long)rg.first, rg.second, (void *)it->first));
		}
		size_t after = pool->numUsedPages();
		long delta = (long)after - (long)pages_before;
		if(after > (1ull << 40)) flag("C03", "pages-underflow", strf("numUsedPages() = %zu after %s (wrapped below zero)", after, opname));
		long expect_known = 0; bool unknown = false;
		for(uintptr_t b : st.destroyed_in_op) { auto it = gone.find(b); if(it != gone.end()) { expect_known -= it->second; gone.erase(it); } }
		for(uintptr_t b : st.created_in_op) { (void)b; unknown = true; }
		if(!unknown) {
			if(delta != expect_known) flag("C03", "pages-drift", strf("numUsedPages() moved by %ld during %s, expected %ld (what was added when the released region was taken)", delta, opname, expect_known));
		} else if(st.created_in_op.size() == 1) {
			auto it = st.maps.find(st.created_in_op[0]);
			long d = delta - expect_known;
			if(it != st.maps.end()) { it->second.pages_delta = d; it->second.delta_known = true; }
			if(d <= 0) flag("C03", "pages-not-raised", strf("numUsedPages() did not rise when a region was taken (%s, delta %ld)", opname, d));
		}
	}
	std::map<uintptr_t, long> gone; // base -> pages_delta of mappings about to be destroyed (filled before the op)

	Mapping *mapping_of(uintptr_t p, size_t s) {
		Mapping *m = st.find(p);
		if(!m || p + s > m->base + m->len) return nullptr;
		return m;
	}

	// C01 oracle on a freshly returned block
	bool admit(uintptr_t p, size_t req, const char *opname, bool fresh_expected) {
		size_t s = api_get_size((void *)p);
		size_t need = std::max<size_t>(req, 1);
		if(s < need) { flag("C01", "too-small", strf("%s(%zu) returned a block whose reported size is %zu", opname, req, s)); return false; }
		Mapping *m = mapping_of(p, s);
		if(!m) { flag("C01", "outside-mapping", strf("%s(%zu) returned %p (size %zu) which does not lie wholly inside one region the pool obtained from map() and has not given back", opname, req, (void *)p, s)); return false; }
		// overlap with live blocks
		auto nx = live.lower_bound(p);
		if(nx != live.end() && nx->first < p + s) { flag("C01", "overlap", strf("%s(%zu) returned [%p,+%zu) which overlaps the live block [%p,+%zu)", opname, req, (void *)p, s, (void *)nx->first, nx->second.size)); return false; }
		if(nx != live.begin()) { auto pv = std::prev(nx); if(pv->first + pv->second.size > p) { flag("C01", "overlap", strf("%s(%zu) returned [%p,+%zu) which overlaps the live block [%p,+%zu)", opname, req, (void *)p, s, (void *)pv->first, pv->second.size)); return false; } }
		// overlap with the pool's frame header
		uintptr_t al = Policy::aligned ? m->base : ((m->base + Policy::m_sb_size - 1) & ~(uintptr_t)(Policy::m_sb_size - 1));
		uintptr_t hlo = m->hdr_hi ? m->hdr_lo : al, hhi = m->hdr_hi ? m->hdr_hi : al + 8;
		if(p < hhi && hlo < p + s) { flag("C01", "overlaps-bookkeeping", strf("%s(%zu) returned [%p,+%zu) which overlaps the allocator's frame header [%p,%p)", opname, req, (void *)p, s, (void *)hlo, (void *)hhi)); return false; }
		size_t al_need = std::min(pow2ceil(std::max<size_t>(need, 8)), (size_t)Policy::m_pagesize);
		if(p % al_need) { flag("C01", "misaligned", strf("%s(%zu) returned %p, not aligned to %zu", opname, req, (void *)p, al_need)); return false; }
		(void)fresh_expected;
		return true;
	}

	void poison_check_live(uintptr_t p, const Block &b, const char *when) {
		if(!Policy::poisoning) return;
		Mapping *m = st.find(p); if(!m) return;
		size_t off = p - m->base;
		for(size_t i = 0; i < std::max<size_t>(b.req, 1) && off + i < m->poison.size(); i++) if(m->poison[off + i]) {
			flag("C03", "live-byte-poisoned", strf("byte %zu of the %zu requested bytes of live block %p is poisoned (%s)", i, b.req, (void *)p, when)); return;
		}
	}
	void poison_check_freed_small(uintptr_t p, size_t cls, uintptr_t mbase, const char *when) {
		if(!Policy::poisoning) return;
		auto it = st.maps.find(mbase); if(it == st.maps.end()) return;
		Mapping &m = it->second;
		size_t off = p - m.base;
		for(size_t i = sizeof(void *); i < cls; i++) if(!m.poison[off + i]) {
			flag("C03", "freed-byte-unpoisoned", strf("byte %zu of the freed %zu-byte block %p is not poisoned again (%s)", i, cls, (void *)p, when)); return;
		}
	}

	void note_small_alloc(size_t cls, bool mapped_now) {
		live_c[cls]++; peak_c[cls] = std::max(peak_c[cls], live_c[cls]);
		if(mapped_now) maps_c[cls]++;
	}
	void footprint_check(size_t cls, const char *when) {
		auto ps = per_slab.find(cls);
		if(ps == per_slab.end() || !ps->second) return;
		size_t bound = (peak_c[cls] + ps->second - 1) / ps->second;
		if(maps_c[cls] > bound) flag("C02", "footprint", strf("%zu slabs mapped for the %zu-byte class although at most %zu blocks of it were ever live at once (%zu per slab => bound %zu) (%s)", maps_c[cls], cls, peak_c[cls], ps->second, bound, when));
	}

	// small vs large follows the documented class arithmetic: requests above the largest class get their own reservation
	void classify(Block &b, Mapping *m, const char *opn) {
		bool fresh = std::find(st.created_in_op.begin(), st.created_in_op.end(), m->base) != st.created_in_op.end();
		b.large = std::max<size_t>(b.req, 1) > frg_max_bucket();
		if(b.large) {
			if(!fresh || m->live_blocks || m->for_class != -1) flag("C01", "large-block-shares-mapping", strf("%s: the large block %p (request %zu) was not placed in a reservation of its own", opn, (void *)(m->base), b.req));
			m->for_class = -2;
		} else {
			if(m->for_class == -1) m->for_class = (int)b.size; // first block out of a fresh slab defines its class
			if(m->for_class != (int)b.size) flag("C01", "class-mismatch", strf("%s: block of size %zu handed out from a mapping used for %d", opn, b.size, m->for_class));
			note_small_alloc(b.size, fresh);
			footprint_check(b.size, opn);
		}
	}

	// ---------------- API wrappers
	uintptr_t do_allocate(size_t n, bool via_realloc_null = false) {
		begin_op();
		long fails0 = st.n_failed;
		void *r = via_realloc_null ? api_realloc(nullptr, n) : api_allocate(n);
		const char *opn = via_realloc_null ? "realloc(null," : "allocate(";
		g_trace += strf("%s%zu)=%p ", opn, n, r);
		held_check(opn);
		bool failed_map = st.n_failed > fails0;
		if(failed_map) {
			faults_seen++;
			{ size_t need = std::max<size_t>(n, 1); size_t cls = need <= 8 ? 8 : pow2ceil(need);
			  count(need > frg_max_bucket() ? "fault_site:large-frame" : maps_c[cls] == 0 ? "fault_site:first-slab-of-class" : "fault_site:additional-slab"); }
			if(r) flag("C04", "non-null-after-map-failure", strf("%s%zu) returned %p although map() failed during the call", opn, n, r));
			if(!st.created_in_op.empty()) flag("C04", "mapping-leaked-by-failed-call", "a call in which map() failed left a new mapping behind");
			end_op_accounting(opn);
			if(r) return 0;
			return 0;
		}
		if(!r) { flag("C04", "null-without-failure", strf("%s%zu) returned null although every map() call succeeded", opn, n)); end_op_accounting(opn); return 0; }
		uintptr_t p = (uintptr_t)r;
		if(!admit(p, n, opn, true)) { end_op_accounting(opn); return 0; }
		size_t s = api_get_size(r);
		Mapping *m = st.find(p);
		Block b{n, s, ops * 0x9E3779B97F4A7C15ull + n, 0, m->base, false};
		classify(b, m, opn);
		m->live_blocks++;
		live[p] = b;
		maybe_pointer_content(p, live[p]); b = live[p];
		fill(p, b);
		poison_check_live(p, b, opn);
		end_op_accounting(opn);
		count("allocations");
		if(b.large) count("large_allocations");
		return p;
	}
	static constexpr size_t frg_max_bucket() { // documented class arithmetic: 8,16,32,64 then doubling; the largest class is 64 << (NB-4)
		return Policy::m_num_buckets <= 4 ? (size_t)8 << (Policy::m_num_buckets - 1) : (size_t)64 << (Policy::m_num_buckets - 4);
	}

	void held_check(const char *opn) {
		if(g_seqmutex.held != 0) { flag("C04", "lock-left-held", strf("%ld pool mutex(es) still held when %s returned", g_seqmutex.held, opn)); g_seqmutex.held = 0; }
	}

	void do_free(uintptr_t p, int how, size_t dealloc_size = 0) { // how: 0 free, 1 deallocate
		auto it = live.find(p);
		Block b = it->second;
		verify(p, b, b.size, "before free");
		if(api_get_size((void *)p) != b.size) flag("C01", "size-changed", strf("reported size of live block %p changed from %zu to %zu", (void *)p, b.size, api_get_size((void *)p)));
		begin_op();
		Mapping *m = st.find(p);
		uintptr_t mbase = m ? m->base : 0;
		if(m) { m->live_blocks--; if(m->delta_known) gone[m->base] = m->pages_delta; }
		live.erase(it);
		if(how == 0) { api_free((void *)p); g_trace += strf("free(%p) ", (void *)p); }
		else { api_deallocate((void *)p, dealloc_size); g_trace += strf("deallocate(%p,%zu) ", (void *)p, dealloc_size); }
		held_check("free");
		after_release(p, b, mbase, "free");
		end_op_accounting("free");
		count("frees");
	}
	void after_release(uintptr_t p, const Block &b, uintptr_t mbase, const char *opn) {
		bool unmapped = std::find(st.destroyed_in_op.begin(), st.destroyed_in_op.end(), mbase) != st.destroyed_in_op.end();
		if(b.large) {
			if(!unmapped) flag("C03", "large-not-unmapped", strf("%s of the large block %p (size %zu) did not return its reservation through unmap()", opn, (void *)p, b.size));
		} else {
			if(unmapped) flag("C03", "slab-unmapped", "freeing a small block unmapped its slab");
			live_c[b.size]--;
			poison_check_freed_small(p, b.size, mbase, opn);
		}
	}

	uintptr_t do_realloc(uintptr_t p, size_t n) {
		auto it = live.find(p);
		Block b = it->second;
		verify(p, b, b.size, "before realloc");
		if(n == 0) { // (p, 0) is free
			begin_op();
			Mapping *m = st.find(p); uintptr_t mbase = m ? m->base : 0;
			if(m) { m->live_blocks--; if(m->delta_known) gone[m->base] = m->pages_delta; }
			live.erase(it);
			void *r = api_realloc((void *)p, 0);
			g_trace += strf("realloc(%p,0)=%p ", (void *)p, r);
			held_check("realloc");
			if(r) flag("C02", "realloc-zero-nonnull", "realloc(p, 0) returned a non-null pointer");
			after_release(p, b, mbase, "realloc(p,0)");
			end_op_accounting("realloc(p,0)");
			return 0;
		}
		begin_op();
		long fails0 = st.n_failed;
		Mapping *m0 = st.find(p); uintptr_t mbase0 = m0 ? m0->base : 0;
		if(m0 && m0->delta_known) gone[mbase0] = m0->pages_delta;
		void *r = api_realloc((void *)p, n);
		g_trace += strf("realloc(%p,%zu)=%p ", (void *)p, n, r);
		held_check("realloc");
		bool failed_map = st.n_failed > fails0;
		if(!r) {
			if(!failed_map) flag("C04", "null-without-failure", strf("realloc(%p,%zu) returned null although every map() call succeeded", (void *)p, n));
			else { faults_seen++; count(b.large ? "fault_site:copying-realloc-large-to-larger" : n > frg_max_bucket() ? "fault_site:copying-realloc-small-to-large" : "fault_site:copying-realloc-small-to-small"); }
			// source must be untouched
			if(api_get_size((void *)p) != b.size) flag("C04", "source-changed-by-failed-realloc", "reported size of realloc's source changed after a failed realloc");
			verify(p, b, b.size, "after a failed realloc (source must stay valid)");
			poison_check_live(p, b, "after a failed realloc");
			if(!st.destroyed_in_op.empty()) flag("C04", "source-released-by-failed-realloc", "a failed realloc unmapped memory");
			end_op_accounting("realloc");
			return p;
		}
		if(failed_map) flag("C04", "non-null-after-map-failure", "realloc returned a block although map() failed during the call");
		uintptr_t q = (uintptr_t)r;
		size_t keep = std::min(b.req, n);
		if(q == p) {
			// in place: must still be big enough, unpoisoned over the new request, content intact
			if(!st.destroyed_in_op.empty() || !st.created_in_op.empty()) flag("C02", "inplace-realloc-remapped", "an in-place realloc mapped or unmapped memory");
			size_t s = api_get_size(r);
			if(s != b.size) flag("C01", "size-changed", strf("reported size changed from %zu to %zu by an in-place realloc", b.size, s));
			if(s < n) {
				// A large block has its reservation to itself: if the granted request still lies inside it, the owner may use all n bytes
				// and the history can go on (C02 then sees whether those bytes survive the next move).
				Mapping *mm = st.find(p);
				bool inside = b.large && mm && p + n <= mm->base + mm->len;
				flag("C01", "too-small", strf("in-place realloc(%zu) kept a block of size %zu", n, s), inside);
			}
			Block nb = b; nb.req = n;
			// only the common prefix is the caller's data
			{ auto *d = (uint8_t *)p; for(size_t i = 0; i < keep; i++) if(d[i] != pat_byte(b.pat, i)) { flag("C02", "realloc-lost-prefix", strf("in-place realloc(%zu->%zu) changed byte %zu of the kept prefix", b.req, n, i)); break; } }
			poison_check_live(p, nb, "after in-place realloc");
			nb.pat = b.pat ^ (ops << 17);
			live[p] = nb;
			fill(p, nb);
			end_op_accounting("realloc");
			count("reallocs_in_place");
			return p;
		}
		// moved: old block released exactly once, new block admitted, prefix preserved
		live.erase(p);
		{ auto om = st.maps.find(mbase0); if(om != st.maps.end() && om->second.live_blocks) om->second.live_blocks--; } // (the old mapping may be gone already)
		if(!admit(q, n, "realloc", true)) { end_op_accounting("realloc"); return 0; }
		{ auto *d = (uint8_t *)q; for(size_t i = 0; i < keep; i++) if(d[i] != pat_byte(b.pat, i)) { flag("C02", "realloc-lost-prefix", strf("moving realloc(%zu->%zu) did not preserve byte %zu of the old contents", b.req, n, i)); break; } }
		size_t s = api_get_size(r);
		Mapping *m = st.find(q);
		Block nb{n, s, b.pat ^ (ops << 13) ^ n, 0, m->base, false};
		classify(nb, m, "realloc");
		m->live_blocks++;
		live[q] = nb;
		// the old block must have been released (exactly once): large -> unmapped, small -> back on its free list (poisoned again)
		{
			bool unmapped = std::find(st.destroyed_in_op.begin(), st.destroyed_in_op.end(), mbase0) != st.destroyed_in_op.end();
			if(b.large && !unmapped) flag("C02", "moved-realloc-kept-old-block", "a moving realloc of a large block did not release the old reservation");
			if(!b.large) { if(unmapped) flag("C03", "slab-unmapped", "a moving realloc unmapped the source slab"); live_c[b.size]--; poison_check_freed_small(p, b.size, mbase0, "old block after a moving realloc"); }
		}
		fill(q, nb);
		poison_check_live(q, nb, "after moving realloc");
		end_op_accounting("realloc");
		count("reallocs_moved");
		return q;
	}

	void null_ops() {
		begin_op();
		uint64_t c0 = st.n_map + st.n_unmap + st.n_poison + st.n_unpoison + st.n_unpoison_expand;
		api_free(nullptr); api_deallocate(nullptr, 0); api_deallocate(nullptr, 64);
		if(api_get_size(nullptr) != 0) flag("C02", "get_size-null", "get_size(nullptr) != 0");
		uint64_t c1 = st.n_map + st.n_unmap + st.n_poison + st.n_unpoison + st.n_unpoison_expand;
		if(c1 != c0) flag("C02", "free-null-not-noop", "free/deallocate of null invoked a policy callback");
		held_check("free(null)");
		end_op_accounting("free(null)");
	}

	// quiescent-point checks
	void quiescent(const char *when) {
		// every live block: size stable, pattern intact, requested bytes unpoisoned (sampled when many)
		size_t step = live.size() > 600 ? live.size() / 300 : 1, i = 0;
		for(auto &kv : live) {
			if(i++ % step) continue;
			if(api_get_size((void *)kv.first) != kv.second.size) { flag("C01", "size-changed", strf("reported size of live block %p changed from %zu to %zu (%s)", (void *)kv.first, kv.second.size, api_get_size((void *)kv.first), when)); break; }
			if(!verify(kv.first, kv.second, kv.second.size, when)) break;
			poison_check_live(kv.first, kv.second, when);
		}
		// with no large block live, only slab memory stays mapped
		size_t nlarge = 0; for(auto &kv : live) if(kv.second.large) nlarge++;
		size_t large_maps = 0; for(auto &kv : st.maps) if(kv.second.for_class == -2) large_maps++;
		if(large_maps != nlarge) flag("C03", "large-reservation-leaked", strf("%zu large reservations are mapped but %zu large blocks are live (%s)", large_maps, nlarge, when));
		// used-page counter equals what the live mappings added
		long sum = 0; bool all_known = true;
		for(auto &kv : st.maps) { if(!kv.second.delta_known) all_known = false; sum += kv.second.pages_delta; }
		if(all_known && (long)pool->numUsedPages() != sum) flag("C03", "pages-drift", strf("numUsedPages()=%zu but the live mappings added %ld in total (%s)", pool->numUsedPages(), sum, when));
	}
};

// ------------------------------------------------------------------ size generator
template<typename Policy>
static size_t boundary_size(Rng &r) {
	size_t maxb = Policy::m_num_buckets <= 4 ? (size_t)8 << (Policy::m_num_buckets - 1) : (size_t)64 << (Policy::m_num_buckets - 4);
	switch(r.below(12)) {
	case 0: return r.below(3);                                   // 0,1,2
	case 1: { size_t c = (size_t)8 << r.below(Policy::m_num_buckets); return c > maxb ? maxb : c; }
	case 2: { size_t c = (size_t)8 << r.below(Policy::m_num_buckets); if(c > maxb) c = maxb; return c + 1; }
	case 3: { size_t c = (size_t)8 << r.below(Policy::m_num_buckets); if(c > maxb) c = maxb; return c - 1; }
	case 4: return maxb + (long)r.below(3) - 1;                   // small/large threshold
	case 5: return Policy::m_pagesize * (1 + r.below(4)) + (long)r.below(3) - 1; // page-rounding boundaries
	case 6: { long v = (long)(Policy::m_sb_size * (1 + r.below(3))) + (long)r.below(3) - 1 - (r.chance(1, 2) ? (long)Policy::m_pagesize : 0); return v < 1 ? 1 : (size_t)v; } // around/above superblock multiples
	case 7: return 1 + r.below(64);
	case 8: return 1 + r.below(maxb);
	case 9: return maxb + 1 + r.below(4 * Policy::m_pagesize);
	default: return 1 + r.below(512);
	}
}

template<typename Policy, typename Mutex>
static void calibrate(Model<Policy, Mutex> &m) {
	// blocks per slab for each class, measured on a scratch pool: allocations of the class until the second map() call
	static std::map<size_t, size_t> cache;
	if(cache.empty()) {
		Model<Policy, Mutex> scratch;
		for(int b = 0; b < Policy::m_num_buckets; b++) {
			size_t cls = b < 4 ? (size_t)8 << b : (size_t)64 << (b - 3);
			uint64_t maps0 = scratch.st.n_map; size_t n = 0;
			while(scratch.st.n_map < maps0 + 2 && n < 1200000) { void *p = scratch.api_allocate(cls); if(!p) break; n++; }
			cache[cls] = n - 1;
			// the measured capacity is only a calibration of the model if the slab really is used up to (almost) its end:
			// whatever the bookkeeping at the front of a slab needs, it is far less than 512 bytes plus one block
			size_t least = (Policy::m_slabsize - 512) / cls; if(least) least--;
			if(n - 1 < least) flag("C02", "slab-capacity", strf("a fresh %zu-byte slab gave out only %zu blocks of the %zu-byte class before the pool mapped another one (room for at least %zu)", (size_t)Policy::m_slabsize, n - 1, cls, least));
		}
	}
	m.per_slab = cache;
}

// ------------------------------------------------------------------ one random history
template<typename Policy, typename Mutex>
static uint64_t history(const char *mode, long long idx, uint64_t cs, unsigned nops, const std::vector<uint64_t> &fail_attempts, bool heavy_fill) {
	begin_case(mode, idx);
	g_trace.clear(); g_case_bad = false; g_seqmutex = {};
	Rng r(cs);
	Model<Policy, Mutex> m;
	m.st.rng.reseed(cs ^ 0xabcdef);
	calibrate(m);
	m.st.fail_set = fail_attempts;
	std::vector<uintptr_t> order; // allocation order for LIFO/FIFO drains
	auto forget = [&](uintptr_t p) { order.erase(std::find(order.begin(), order.end(), p)); };
	bool ok = guarded(g_prop.c_str(), [&] {
		int phase = 0; size_t focus = 8;
		for(unsigned i = 0; i < nops && !g_case_bad; i++) {
			if(i % 80 == 0) { phase = r.below(heavy_fill ? 6 : 5); if(heavy_fill && i < 400) phase = 5; focus = (size_t)8 << r.below(Policy::m_num_buckets); if(focus > Model<Policy, Mutex>::frg_max_bucket()) focus = Model<Policy, Mutex>::frg_max_bucket(); }
			int k = r.below(100);
			bool want_alloc = phase == 0 ? k < 75 : phase == 1 ? k < 25 : phase == 5 ? k < 90 : k < 50;
			if(m.live.empty()) want_alloc = true;
			if(m.live.size() > (heavy_fill ? 40000u : 3000u)) want_alloc = false;
			if(want_alloc) {
				size_t n = (phase >= 3) ? focus - r.below(focus / 2 + 1) : boundary_size<Policy>(r);
				if(phase == 5) n = focus;
				uintptr_t p = m.do_allocate(n, r.chance(1, 16));
				if(p) order.push_back(p);
			} else {
				int what = r.below(10);
				// victim selection: random / LIFO / FIFO / lowest address
				uintptr_t v;
				switch(r.below(4)) { case 0: v = order.back(); break; case 1: v = order.front(); break; case 2: v = m.live.begin()->first; break; default: v = order[r.below(order.size())]; }
				if(what < 4) { forget(v); m.do_free(v, 0); }
				else if(what < 6) { Block b = m.live[v]; size_t ds = r.chance(1, 3) ? b.size : r.chance(1, 2) ? b.req : (b.req + r.below(b.size - b.req + 1)); forget(v); m.do_free(v, 1, ds); }
				else if(what < 9) {
					Block b = m.live[v];
					size_t n2;
					switch(r.below(7)) { case 0: n2 = b.req / 2 + 1; break; case 1: n2 = b.size; break; case 2: n2 = b.size + 1; break; case 3: n2 = boundary_size<Policy>(r); break; case 4: n2 = b.req + 1; break;
					case 5: n2 = std::max<size_t>(1, b.size / ((size_t)4 << r.below(8))); count("deep_shrinking_reallocs"); break; // to a quarter .. 1/512 of the block: a size of a much smaller (maybe still slab-less) class
					default: n2 = 0; break; }
					forget(v);
					uintptr_t q = m.do_realloc(v, n2);
					if(q) order.push_back(q);
				} else m.null_ops();
			}
			if(i % 64 == 63) m.quiescent("periodic quiescent point");
			if(g_trace.size() > 8000) g_trace.erase(0, 4000);
		}
		if(!g_case_bad) m.quiescent("end of history");
		// drain everything: afterwards no large reservation may remain
		while(!m.live.empty() && !g_case_bad) { uintptr_t v = m.live.begin()->first; forget(v); m.do_free(v, r.below(2), m.live.begin()->second.req); }
		if(!g_case_bad) m.quiescent("after draining");
	});
	(void)ok;
	if(m.faults_seen) count("histories_with_injected_fault");
	count("policy_poison_calls", m.st.n_poison); count("policy_unpoison_calls", m.st.n_unpoison + m.st.n_unpoison_expand);
	count("info_unpoison_of_not_fully_poisoned_range", m.st.unpoison_not_fully_poisoned);
	return m.st.map_attempts;
}

// configurations (page, slab, superblock, buckets)
template<bool AL, bool PO> using CfgDefault = ShadowPolicy<0x1000, 1 << 18, 1 << 18, 13, AL, PO>;
template<bool AL, bool PO> using CfgSmall = ShadowPolicy<0x1000, 1 << 14, 1 << 14, 8, AL, PO>;
template<bool AL, bool PO> using CfgBigPage = ShadowPolicy<0x4000, 1 << 16, 1 << 16, 10, AL, PO>;
template<bool AL, bool PO> using CfgBigSb = ShadowPolicy<0x1000, 1 << 18, 1 << 19, 14, AL, PO>;
template<bool AL, bool PO> using CfgTiny = ShadowPolicy<0x1000, 0x1000, 0x1000, 5, AL, PO>;
template<bool AL, bool PO> using CfgOdd = ShadowPolicy<0x1000, 0x3000, 0x4000, 8, AL, PO>;      // slab size not a power of two (only a page multiple <= superblock size is required)
template<bool AL, bool PO> using CfgHugePage = ShadowPolicy<0x1000, 1 << 21, 1 << 21, 13, AL, PO>; // one 2 MiB huge page per slab: 262000 blocks in a slab of the smallest class
// policies that leave geometry constants to the pool's defaults: a slab size alone (192 KiB under the default 256 KiB superblock),
// nothing at all, and everything but the superblock size
template<bool AL, bool PO> using CfgOmitSb = ShadowPolicy<0x1000, 0x30000, 1 << 18, 13, AL, PO, 1 | 4 | 8>;
template<bool AL, bool PO> using CfgOmitAll = ShadowPolicy<0x1000, 1 << 18, 1 << 18, 13, AL, PO, 1 | 2 | 4 | 8>;
template<bool AL, bool PO> using CfgOmitSlab = ShadowPolicy<0x1000, 1 << 18, 1 << 18, 8, AL, PO, 2>;
template<bool PO> using CfgBothMaps = ShadowPolicy<0x1000, 1 << 14, 1 << 14, 8, true, PO, 16>;   // a policy that offers map(len) and map(len, align)
template<bool PO> using CfgBothMapsBigSb = ShadowPolicy<0x1000, 1 << 16, 1 << 18, 10, true, PO, 16 | 1>; // ... 64 KiB slabs under the default 256 KiB superblock
template<bool AL, bool PO> using CfgOddBig = ShadowPolicy<0x1000, 0x30000, 0x40000, 13, AL, PO>;

// a policy that also offers the optional allocation-trace hooks (enable_trace / output_trace / walk_stack): the pool then compiles
// its tracing code in; every record handed to output_trace is checked for its framing
template<typename Base>
struct TracePolicy : Base {
	using Base::Base;
	bool enable_trace() { return (++n_enable % 5) != 0; } // mostly on, sometimes off
	void output_trace(void *buffer, size_t n) {
		auto *b = (const uint8_t *)buffer;
		bool ok = n >= 1 + 8 + 8 && (b[0] == 'a' || b[0] == 'f');
		for(int i = 0; ok && i < 8; i++) if(b[n - 8 + i] != 0xA5) ok = false;
		if(!ok) violation(g_prop + ":slab:trace-record", "output_trace() received a record without the documented framing (type byte, pointer, [size], frames, 0xA5 terminator)");
		count("policy_trace_records");
	}
	template<typename F> void walk_stack(F f) { for(uintptr_t i = 0; i < 20; i++) f(0x400000 + i * 16); } // more frames than the pool records
	uint64_t n_enable = 0;
};

template<typename Policy, typename Mutex>
static void run_cfg(const char *name, uint64_t ncases, unsigned nops) {
	std::string mode = std::string("rand:") + name;
	if(!want_mode(mode.c_str())) return;
	Rng sr(derive_seed(mode.c_str()));
	for(uint64_t c = 0; c < ncases; c++) {
		uint64_t cs = sr.next();
		if(!want_case(c)) continue;
		history<Policy, Mutex>(mode.c_str(), c, cs, nops, {}, c % 6 == 5);
		note_distinct(mix(hash_str(mode), cs));
		count("histories");
	}
}

// one class filled far beyond 65535 live blocks, on a geometry whose slabs hold that many (a 2 MiB "one huge page per slab" policy):
// every per-slab counter and index has to cope with the number of blocks a slab can hold
template<typename Policy, typename Mutex>
static void dense_slabs(const char *name, uint64_t ncases) {
	std::string mode = std::string("dense:") + name;
	if(!want_mode(mode.c_str())) return;
	Rng sr(derive_seed(mode.c_str()));
	for(uint64_t c = 0; c < ncases; c++) {
		uint64_t cs = sr.next();
		if(!want_case(c)) continue;
		begin_case(mode.c_str(), c);
		g_trace.clear(); g_case_bad = false; g_seqmutex = {};
		Rng r(cs);
		Model<Policy, Mutex> m;
		m.st.rng.reseed(cs ^ 0x5151);
		calibrate(m);
		size_t cls = (size_t)8 << ((c + opt.shard) % 3);
		size_t cap = m.per_slab[cls];
		size_t peak = 66000 + r.below(std::min<size_t>(cap + cap / 4, 330000) - 66000);
		case_detail("class=%zu blocks-per-slab=%zu peak=%zu seed=%llu", cls, cap, peak, (unsigned long long)cs);
		guarded(g_prop.c_str(), [&] {
			std::vector<uintptr_t> mine;
			auto trim = [&] { if(g_trace.size() > 8000) g_trace.erase(0, 6000); };
			for(size_t i = 0; i < peak && !g_case_bad; i++) { uintptr_t p = m.do_allocate(cls - r.below(3)); if(p) mine.push_back(p); trim(); }
			if(!g_case_bad) m.quiescent("class filled to its peak");
			// free a random two thirds, refill to the same peak: no further slab may be needed
			for(size_t i = 0; i < mine.size(); i++) std::swap(mine[i], mine[i + r.below(mine.size() - i)]);
			size_t keep = mine.size() / 3;
			for(size_t i = keep; i < mine.size() && !g_case_bad; i++) { m.do_free(mine[i], r.below(2), cls); trim(); }
			mine.resize(keep);
			for(size_t i = keep; i < peak && !g_case_bad; i++) { uintptr_t p = m.do_allocate(cls); if(p) mine.push_back(p); trim(); }
			if(!g_case_bad) m.quiescent("class refilled to its peak");
			count("blocks_live_at_once_in_the_densest_history", 0); if(peak > rec.counters["blocks_live_at_once_in_the_densest_history"]) rec.counters["blocks_live_at_once_in_the_densest_history"] = peak;
			while(!m.live.empty() && !g_case_bad) { uintptr_t v = m.live.begin()->first; m.do_free(v, 0, 0); trim(); }
			if(!g_case_bad) m.quiescent("after draining");
		});
		note_distinct(mix(hash_str(mode), cs));
		count("dense_histories");
	}
}

// bounded-exhaustive: all alloc/free sequences up to length L over two size classes on the tiny configuration
template<typename Policy, typename Mutex>
static void exhaustive(const char *mode, unsigned len) {
	if(!want_mode(mode)) return;
	// ops: alloc(8), alloc(128), free(oldest), free(newest), realloc(newest -> other class)
	const int NOPS = 5;
	uint64_t total = 1; for(unsigned i = 0; i < len; i++) total *= NOPS;
	for(uint64_t x = opt.shard; x < total; x += opt.nshards) {
		if(!want_case(x)) continue;
		begin_case(mode, x);
		g_trace.clear(); g_case_bad = false; g_seqmutex = {};
		Model<Policy, Mutex> m;
		calibrate(m);
		std::vector<uintptr_t> order;
		guarded(g_prop.c_str(), [&] {
			// prefill so that slabs are close to full -> the sequence crosses full/partial transitions
			size_t pre8 = m.per_slab[8] ? m.per_slab[8] - 2 : 0, pre128 = m.per_slab[128] ? m.per_slab[128] - 1 : 0;
			std::vector<uintptr_t> keep;
			for(size_t i = 0; i < pre8; i++) keep.push_back(m.do_allocate(8));
			for(size_t i = 0; i < pre128; i++) keep.push_back(m.do_allocate(128));
			uint64_t y = x;
			for(unsigned i = 0; i < len && !g_case_bad; i++) {
				int op = y % NOPS; y /= NOPS;
				if(op == 0) { auto p = m.do_allocate(8); if(p) order.push_back(p); }
				else if(op == 1) { auto p = m.do_allocate(128); if(p) order.push_back(p); }
				else if(order.empty()) continue;
				else if(op == 2) { auto v = order.front(); order.erase(order.begin()); m.do_free(v, 0); }
				else if(op == 3) { auto v = order.back(); order.pop_back(); m.do_free(v, 1, m.live[v].req); }
				else { auto v = order.back(); order.pop_back(); size_t n2 = m.live[v].size == 8 ? 128 : 8; auto q = m.do_realloc(v, n2); if(q) order.push_back(q); }
			}
			if(!g_case_bad) m.quiescent("end of exhaustive sequence");
		});
		note_distinct(mix(hash_str(mode), x));
		count("exhaustive_histories");
	}
	rec.notes[mode] = strf("all %llu sequences of length %u over {alloc 8, alloc 128, free oldest, deallocate newest, realloc newest across classes} on nearly full slabs of the (4K,4K,4K,5) configuration", (unsigned long long)total, len);
}

// C04: fault enumeration over a fixed seeded history
template<typename Policy, typename Mutex>
static void fault_enum(const char *name, uint64_t cs, unsigned nops, bool pairs, bool heavy = false) {
	std::string mode = std::string("fault:") + name;
	if(!want_mode(mode.c_str())) return;
	// run once without faults to count the map() attempts of this history
	uint64_t M = history<Policy, Mutex>(mode.c_str(), 0, cs, nops, {}, heavy);
	count("fault_free_reference_runs");
	if(M > 400) M = 400;
	long long idx = 1;
	for(uint64_t i = 1; i <= M; i++) {
		if(idx % opt.nshards == opt.shard && want_case(idx)) { history<Policy, Mutex>(mode.c_str(), idx, cs, nops, {i}, heavy); note_distinct(mix(hash_str(mode), i)); count("faulted_runs"); }
		idx++;
	}
	if(pairs) {
		for(uint64_t i = 1; i <= M; i++) for(uint64_t j = i + 1; j <= std::min<uint64_t>(M, i + 12); j++) {
			if(idx % opt.nshards == opt.shard && want_case(idx)) { history<Policy, Mutex>(mode.c_str(), idx, cs, nops, {i, j}, heavy); note_distinct(mix(hash_str(mode), i * 1000 + j)); count("faulted_runs"); }
			idx++;
		}
		// bursts: three consecutive failures
		for(uint64_t i = 1; i + 2 <= M; i += 2) {
			if(idx % opt.nshards == opt.shard && want_case(idx)) { history<Policy, Mutex>(mode.c_str(), idx, cs, nops, {i, i + 1, i + 2}, heavy); note_distinct(mix(hash_str(mode), i * 77777)); count("faulted_runs"); }
			idx++;
		}
	}
	rec.notes[mode] = strf("history seed %llu with %llu map() attempts: every single attempt failed%s", (unsigned long long)cs, (unsigned long long)M, pairs ? ", every pair (i, i+1..i+12) and every burst of 3" : "");
}

// ------------------------------------------------------------------ requests of 2^31 .. 2^36 bytes
// A light policy (address space only: MAP_NORESERVE, nothing but the frame header and the first/last byte of the block is touched)
// so that sizes beyond 32 bits can be requested: the size arithmetic of the large-block path must be done in size_t throughout.
// PageT: the C++ type the policy declares its geometry constants with (the pool must not inherit a narrow type from it)
template<typename PageT>
struct HugePolicyT {
	static constexpr PageT pagesize = 0x1000;
	static constexpr PageT slabsize = 0x40000, sb_size = 0x40000;
	struct M { void *raw; size_t rawlen; size_t len; };
	std::map<uintptr_t, M> maps;
	uint64_t bad_unmap = 0;
	uintptr_t map(size_t len, size_t align) {
		size_t rawlen = len + align;
		void *raw = mmap(nullptr, rawlen, PROT_READ | PROT_WRITE, MAP_PRIVATE | MAP_ANONYMOUS | MAP_NORESERVE, -1, 0);
		if(raw == MAP_FAILED) return 0;
		uintptr_t base = ((uintptr_t)raw + align - 1) & ~(uintptr_t)(align - 1);
		maps[base] = {raw, rawlen, len};
		return base;
	}
	void unmap(uintptr_t base, size_t len) {
		auto it = maps.find(base);
		if(it == maps.end() || it->second.len != len) { bad_unmap++; return; }
		munmap(it->second.raw, it->second.rawlen); maps.erase(it);
	}
};
template<typename HugePolicy>
static void huge_requests_t(const char *mode) {
	if(!want_mode(mode) || g_prop == "C04") return;
	static const size_t sizes[] = {(size_t(1) << 31) - 1, size_t(1) << 31, (size_t(1) << 32) - 4096, (size_t(1) << 32) - 1, size_t(1) << 32, (size_t(1) << 32) + 12345, (size_t(1) << 33) + 1, (size_t(3) << 32) + 4097, size_t(1) << 36};
	long long idx = 0;
	for(size_t n : sizes) for(int via_realloc = 0; via_realloc < 2; via_realloc++) {
		long long my = idx++;
		if(my % opt.nshards != opt.shard || !want_case(my)) continue;
		begin_case(mode, my);
		case_detail("%s of %zu bytes", via_realloc ? "realloc(small block -> huge)" : "allocate", n);
		g_case_bad = false; g_trace.clear();
		guarded(g_prop.c_str(), [&] {
			HugePolicy pol;
			frg::slab_pool<HugePolicy, SeqMutex> pool(pol);
			void *small = pool.allocate(100), *seed = pool.allocate(64); // (map the slabs of both small classes first)
			size_t pages0 = pool.numUsedPages(), maps0 = pol.maps.size();
			void *p = via_realloc ? pool.realloc(seed, n) : pool.allocate(n);
			if(!via_realloc) pool.free(seed);
			if(!p) { count("huge_requests_refused_by_mmap"); pool.free(small); if(via_realloc) pool.free(seed); for(auto &kv : pol.maps) munmap(kv.second.raw, kv.second.rawlen); return; } // the address space was not available: nothing to observe
			uintptr_t a = (uintptr_t)p;
			size_t s = pool.get_size(p);
			if(s < n) flag("C01", "too-small", strf("a request of %zu bytes returned a block of reported size %zu", n, s));
			bool inside = false; for(auto &kv : pol.maps) if(a >= kv.first && a + n <= kv.first + kv.second.len && a + n > a) inside = true;
			if(!inside) flag("C01", "outside-mapping", strf("a request of %zu bytes returned %p, which does not lie wholly inside memory obtained from the policy (largest mapping asked for: %zu bytes)", n, p, [&] { size_t m = 0; for(auto &kv : pol.maps) m = std::max(m, kv.second.len); return m; }()));
			size_t pages1 = pool.numUsedPages();
			if(pages1 - pages0 < n / (size_t)HugePolicy::pagesize) flag("C03", "pages-not-raised", strf("numUsedPages() rose by %zu pages for a block of %zu bytes (%zu pages)", pages1 - pages0, n, n / (size_t)HugePolicy::pagesize));
			if(inside && !g_case_bad) { ((volatile uint8_t *)p)[0] = 0x5a; ((volatile uint8_t *)p)[n - 1] = 0xa5; if(((volatile uint8_t *)p)[0] != 0x5a) flag("C02", "content-changed", "first byte of a huge block"); }
			pool.free(p);
			if(pool.numUsedPages() != pages0) flag("C03", "pages-drift", strf("numUsedPages() is %zu after the huge block was freed, %zu before it was allocated", pool.numUsedPages(), pages0));
			if(pol.bad_unmap) flag("C03", "protocol:unmap-length", "unmap of the huge reservation with a base/length that map() was not asked for");
			if(pol.maps.size() != maps0) flag("C03", "protocol:large-left-mapped", strf("%zu mappings remain after the huge block was freed, %zu (slabs) existed before", pol.maps.size(), maps0));
			pool.free(small);
			for(auto &kv : pol.maps) munmap(kv.second.raw, kv.second.rawlen);
		});
		note_distinct(mix(hash_str(mode), n * 2 + via_realloc)); count("huge_requests");
	}
}
static void huge_requests() {
	huge_requests_t<HugePolicyT<size_t>>("huge");
	huge_requests_t<HugePolicyT<unsigned int>>("huge:uint-constants");
	huge_requests_t<HugePolicyT<int>>("huge:int-constants");
	sample("huge: allocate / realloc-to of 2^31-1, 2^31, 2^32-4096, 2^32-1, 2^32, 2^32+12345, 2^33+1, 3*2^32+4097, 2^36 bytes on an address-space-only policy: reported size, containment, page accounting, unmap pairing");
}

int main(int argc, char **argv) {
	parse_args(argc, argv, "c01_slab");
	for(const char *p : {"C01", "C02", "C03", "C04"}) if(opt.replay_arg.find(std::string("prop=") + p) != std::string::npos) g_prop = p;
	g_slab_prop_for_locks = g_prop == "C04" ? "C04" : "C05";
	rec.rule = "a case is one seeded history of allocate/free/deallocate/realloc (boundary-biased sizes, phase structure: fill / drain in LIFO, FIFO, address, random order / refill / churn) on one policy configuration; "
		"every returned block is checked against the shadow model (mapping registry, live-interval map, header range, alignment, stable get_size), patterns and poison shadow are verified at each release and at quiescent points; "
		"distinct = (configuration, history seed, injected fault set)";
	bool t = opt.thorough();
	using SM = SeqMutex;
	huge_requests();
	if(g_prop != "C04") {
		uint64_t n = scaled(6, 40); unsigned ops = t ? 4000 : 1500;
		run_cfg<CfgDefault<false, true>, SM>("default/unaligned/poison", n, ops);
		run_cfg<CfgDefault<true, false>, SM>("default/aligned/plain", n, ops);
		run_cfg<CfgDefault<true, true>, frg::ticket_spinlock>("default/aligned/poison/ticket", n / 2 + 1, ops);
		run_cfg<CfgDefault<false, false>, frg::simple_spinlock>("default/unaligned/plain/simple", n / 2 + 1, ops);
		run_cfg<CfgSmall<false, true>, SM>("small/unaligned/poison", n * 2, ops);
		run_cfg<CfgSmall<true, true>, SM>("small/aligned/poison", n * 2, ops);
		run_cfg<CfgSmall<false, false>, SM>("small/unaligned/plain", n, ops);
		run_cfg<CfgBigPage<false, true>, SM>("bigpage/unaligned/poison", n, ops);
		run_cfg<CfgBigPage<true, false>, SM>("bigpage/aligned/plain", n, ops);
		run_cfg<CfgBigSb<false, true>, SM>("bigsb/unaligned/poison", n, ops);
		run_cfg<CfgBigSb<true, true>, SM>("bigsb/aligned/poison", n, ops);
		run_cfg<CfgOdd<false, true>, SM>("odd-slab/unaligned/poison", n * 2, ops);
		run_cfg<CfgOdd<true, false>, SM>("odd-slab/aligned/plain", n, ops);
		run_cfg<CfgOddBig<true, true>, SM>("odd-slab-192K/aligned/poison", n / 2 + 1, ops);
		run_cfg<TracePolicy<CfgSmall<false, true>>, SM>("small/unaligned/poison/trace-hooks", n, ops);
		run_cfg<CfgHugePage<true, false>, SM>("hugepage-2M/aligned/plain", n / 3 + 1, ops);
		run_cfg<CfgBothMaps<true>, SM>("small/both-map-forms/poison", n, ops);
		run_cfg<CfgBothMapsBigSb<false>, SM>("slab-64K-default-sb/both-map-forms/plain", n, ops);
		run_cfg<CfgOmitSb<false, true>, SM>("slabsize-192K-only/unaligned/poison", n / 2 + 1, ops);
		run_cfg<CfgOmitSb<true, false>, SM>("slabsize-192K-only/aligned/plain", n / 2 + 1, ops);
		run_cfg<CfgOmitAll<false, true>, SM>("no-constants/unaligned/poison", n / 2 + 1, ops);
		run_cfg<CfgOmitSlab<true, true>, SM>("no-slabsize/aligned/poison", n / 2 + 1, ops);
		dense_slabs<CfgHugePage<true, false>, SM>("hugepage-2M/aligned/plain", t ? 3 : 1); // per shard
		run_cfg<CfgTiny<false, true>, SM>("tiny/unaligned/poison", n * 3, ops);
		run_cfg<CfgTiny<true, false>, SM>("tiny/aligned/plain", n * 3, ops);
		exhaustive<CfgTiny<false, true>, SM>("exh:tiny/unaligned/poison", t ? 8 : 6);
		exhaustive<CfgTiny<true, false>, SM>("exh:tiny/aligned/plain", t ? 7 : 5);
		if(g_prop == "C02") fault_enum<CfgSmall<false, true>, SM>("small/unaligned/poison", 1001, 400, false); // "frees the old block only when it moved": also when the move failed
		sample("rand:small/unaligned/poison: 1500 ops (allocate boundary sizes 0,1,class±1,max_bucket±1,page multiples±1,superblock multiples; free/deallocate(any admissible size)/realloc shrink,grow,cross-class,to 0; null ops) with full oracle after each call");
	} else {
		fault_enum<CfgSmall<false, true>, SM>("small/unaligned/poison", 1001, 400, t);
		fault_enum<CfgSmall<true, false>, SM>("small/aligned/plain", 1002, 400, t);
		fault_enum<CfgTiny<false, true>, SM>("tiny/unaligned/poison", 1003, 400, t);
		fault_enum<CfgTiny<false, true>, SM>("tiny/unaligned/poison/fill", 1007, 600, t, true);
		fault_enum<CfgSmall<true, true>, SM>("small/aligned/poison/fill", 1008, 900, t, true);
		fault_enum<CfgDefault<true, true>, SM>("default/aligned/poison", 1004, 300, t);
		fault_enum<CfgOdd<false, true>, SM>("odd-slab/unaligned/poison", 1009, 400, t);
		fault_enum<CfgBothMaps<true>, SM>("small/both-map-forms/poison", 1011, 400, t);
		fault_enum<CfgBothMapsBigSb<false>, SM>("slab-64K-default-sb/both-map-forms/plain", 1012, 300, t);
		fault_enum<TracePolicy<CfgSmall<true, true>>, SM>("small/aligned/poison/trace-hooks", 1010, 400, t);
		if(t) { fault_enum<CfgBigSb<false, true>, SM>("bigsb/unaligned/poison", 1005, 400, t); fault_enum<CfgTiny<true, false>, SM>("tiny/aligned/plain", 1006, 400, t); }
		sample("fault:small/unaligned/poison: a fixed 400-op history; run once to count map() attempts M, then re-run failing attempt i for every i (thorough: every pair and bursts of 3); all C01-C03 oracles stay armed, no mutex may stay held, later requests must succeed");
	}
	return finish();
}
