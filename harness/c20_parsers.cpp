// C20: the four parsers (printf_format, fmt(), parse_arguments, to_number) are memory-safe and total on arbitrary input.
// Oracle = sanitizers (ASan+UBSan) + exact-size buffers (format strings, command lines, option targets) + exact-size va_list
// (one slot per consumed argument, computed by an independent tokenizer) + "stopped through frg_panic" is an accepted outcome.
// Termination is decided by the runner's watchdog (case-count-bounded runs).
#include "printf_common.hpp"
#include <frg/cmdline.hpp>
#include <functional>
#include <memory>
#include <frg/array.hpp>
#include <frg/span.hpp>
#include <limits>

using namespace verif;
using namespace pf;

static std::vector<std::unique_ptr<GuardedBuf>> g_keep;
static GuardedBuf *g_str_narrow, *g_str_wide;

static std::vector<uint64_t> make_slots(const Parsed &P, Rng &r) {
	bool mixed = (P.any_positional && P.any_sequential) || P.weird;
	bool any_ptr = false;
	for(auto c : P.slots) if(c == S_STR || c == S_WSTR) any_ptr = true;
	std::vector<uint64_t> v;
	for(auto c : P.slots) {
		if(mixed && any_ptr) { v.push_back((uint64_t)g_str_wide->data()); continue; } // every slot dereferenceable (both as char* and wchar_t*)
		switch(c) {
		case S_INT: v.push_back(r.chance(1, 2) ? r.below(40) : r.next()); break;
		case S_CHAR: v.push_back('a' + r.below(26)); break;
		case S_STR: v.push_back((uint64_t)g_str_narrow->data()); break;
		case S_WSTR: v.push_back((uint64_t)g_str_wide->data()); break;
		case S_PTR: v.push_back(r.next()); break;
		}
	}
	return v;
}

static void printf_input(const std::string &f, Rng &r, bool allow_big) {
	Parsed P = tokenize(f);
	// output volume is bounded by the harness (not a parsing question): widths/precisions above 100000 only in a few cases,
	// '*' arguments are small non-negative numbers (negative ones are outside the stated grammar)
	for(auto &d : P.dirs) if((d.width > 100000 || d.prec > 100000) && !allow_big) { count("printf_skipped_huge_width"); return; }
	if(P.pos_conflict) { count("printf_skipped_unsatisfiable_positional_types"); return; }
	// known finding (see known_findings.json, demonstrated by positional_probe below): positions fetched through conversions of
	// different sizes. The sweep stays on formats whose positional fetches all have one size.
	if(P.any_positional && !P.pos_sizes_uniform) { count("printf_skipped_mixed_size_positional"); return; }
	{ bool mixed = (P.any_positional && P.any_sequential) || P.weird, any_ptr = false, any_star = false;
	  for(auto c : P.slots) if(c == S_STR || c == S_WSTR) any_ptr = true;
	  for(auto &d : P.dirs) if(d.star_w || d.star_p) any_star = true;
	  if(mixed && any_ptr && any_star) { count("printf_skipped_mixed_star_and_pointer"); return; } } // no slot value is both a small width and a valid string pointer
	std::vector<uint64_t> slots = make_slots(P, r);
	// '*' slots must be small: find them by re-walking the directives in consumption order (sequential formats only)
	if(!P.any_positional) { size_t k = 0; for(auto &d : P.dirs) { if(d.star_w && k < slots.size()) slots[k++] = r.below(30); if(d.star_p && k < slots.size()) slots[k++] = r.below(30);
		switch(d.conv) { case 'd': case 'i': case 'u': case 'o': case 'x': case 'X': case 'b': case 'B': case 'c': case 's': case 'p': k++; break; default: break; } } }
	else for(auto &s : slots) if(s != (uint64_t)g_str_wide->data() && s != (uint64_t)g_str_narrow->data()) s = r.below(30); // positional: any slot may serve as a '*' width
	std::string z = f; z.push_back('\0');
	GuardedBuf gf(z.data(), z.size());
	case_detail("printf format \"%s\" (%zu slots)", f.c_str(), slots.size());
	bool huge = false; for(auto &d : P.dirs) if(d.width > 100000 || d.prec > 100000) huge = true;
	FriggResult fr = run_frigg(gf.data(), slots, huge, false); // huge widths: the agent expands at most 1000 pad characters
	{ FriggResult fr2 = run_frigg(gf.data(), slots, huge, true); count(fr2.panicked ? "printf_lenient_agent_stopped_by_assertion" : "printf_lenient_agent_completed"); } // same input, agent that ignores unknown conversions
	count(fr.panicked ? "printf_stopped_by_assertion" : fr.agent_error ? "printf_agent_error" : "printf_completed");
}

static void exhaustive_alphabet(const char *mode, const std::string &alpha, unsigned maxlen, uint64_t stride_last, const std::function<void(const std::string &, Rng &)> &fn, unsigned minlen = 0) {
	if(!want_mode(mode)) return;
	Rng r(derive_seed(mode));
	long long idx = 0;
	for(unsigned len = minlen; len <= maxlen; len++) {
		uint64_t total = 1; for(unsigned i = 0; i < len; i++) total *= alpha.size();
		uint64_t stride = (len == maxlen) ? stride_last : 1;
		for(uint64_t x = 0; x < total; x += stride) {
			long long my = idx++;
			if(my % opt.nshards != opt.shard) continue;
			if(!want_case(my)) continue;
			begin_case(mode, my);
			std::string s; uint64_t y = x;
			for(unsigned i = 0; i < len; i++) { s.push_back(alpha[y % alpha.size()]); y /= alpha.size(); }
			fn(s, r);
			note_distinct(mix(hash_str(mode), hash_str(s)));
		}
	}
	rec.notes[mode] = strf("all strings of length <= %u over the alphabet \"%s\"%s", maxlen, alpha.c_str(), stride_last > 1 ? strf(" (every %llu-th of the longest length)", (unsigned long long)stride_last).c_str() : "");
}

// ------------------------------------------------------------------ fmt
static void fmt_input(const std::string &f, Rng &r) {
	{ size_t run = 0; for(char ch : f) { run = (ch >= '0' && ch <= '9') ? run + 1 : 0; if(run > 6 && (hash_str(f) % 200)) { count("fmt_skipped_huge_width"); return; } } } // widths above 10^6 only in a few cases (output volume)
	GuardedBuf g(f.data(), f.size());
	frg::string_view v(g.data(), f.size());
	case_detail("fmt \"%s\"", f.c_str());
	int which = r.below(3);
	RecSink sink; sink.limit = 1 << 16;
	try {
		struct S { RecSink *s; void append(char c) { s->append(c); } void append(const char *p) { s->append(p); } } out{&sink};
		if(which == 0) frg::format(frg::fmt(v), out);
		else if(which == 1) frg::format(frg::fmt(v, 42), out);
		else frg::format(frg::fmt(v, -7, "str", 'c', 99ul), out);
		count("fmt_completed");
	} catch(const PanicStop &) { count("fmt_stopped_by_assertion"); }
}

// ------------------------------------------------------------------ cmdline
struct Cell { // option target in an exact-size heap cell
	void *p; size_t n;
	Cell(size_t n_) : n(n_) { p = malloc(n); memset(p, 0, n); }
	~Cell() { free(p); }
};

// a single-pass option table: the option an iterator designates lives in a heap cell that is released when the iterator moves on
// (and when it reaches the end), like the buffer of a stream iterator. A parser may use the option only while the iterator stays.
struct OptionStream {
	struct State { std::vector<std::function<frg::option()>> make; };
	State *st;
	struct End {};
	struct It { using difference_type = std::ptrdiff_t; using value_type = frg::option; State *st = nullptr; size_t i = 0; std::shared_ptr<frg::option> cell; // the iterator (and its copies) own the cell
		void load() { if(i < st->make.size()) cell = std::make_shared<frg::option>(st->make[i]()); else cell.reset(); }
		const frg::option &operator*() const { return *cell; }
		It &operator++() { i++; load(); return *this; }
		void operator++(int) { ++*this; }
		bool operator==(End) const { return i >= st->make.size(); } };
	It begin() { It it; it.st = st; it.load(); return it; }
	End end() { return {}; }
};
static_assert(std::ranges::range<OptionStream>);

static void cmdline_input(const std::string &line, Rng &r) {
	GuardedBuf g(line.data(), line.size());
	frg::string_view v(g.data(), line.size());
	case_detail("cmdline \"%s\"", line.c_str());
	Cell flag_a(sizeof(bool)), flag_b(sizeof(bool)), sv(sizeof(frg::string_view)), sv2(sizeof(frg::string_view)), i8(1), u8(1), i32(4), u64(8), i64(8), u16(2);
	new (sv.p) frg::string_view(); new (sv2.p) frg::string_view();
	int table = r.below(7);
	try {
		if(table == 6) {
			OptionStream::State st;
			st.make = {[&] { return frg::option{"a", frg::store_true(*(bool *)flag_a.p)}; }, [&] { return frg::option{"1", frg::as_number(*(int32_t *)i32.p)}; }, [&] { return frg::option{"aa", frg::as_string_view(*(frg::string_view *)sv.p)}; },
				[&] { return frg::option{"a1", frg::store_false(*(bool *)flag_b.p)}; }, [&] { return frg::option{"", frg::as_string_view(*(frg::string_view *)sv2.p)}; }, [&] { return frg::option{"a", frg::as_number(*(uint64_t *)u64.p)}; }};
			frg::parse_arguments(v, OptionStream{&st});
			count("cmdline_single_pass_option_tables");
		} else
		if(table == 5) { // a table that is computed on the fly: a view that builds each frg::option when the iterator is dereferenced
			// (parse_arguments takes any range of options; the options of such a range are temporaries)
			struct Setting { const char *name; int kind; void *target; };
			std::vector<Setting> settings = {{"a", 0, flag_a.p}, {"1", 1, i32.p}, {"aa", 2, sv.p}, {"a1", 0, flag_b.p}, {"", 2, sv2.p}, {"11", 1, i32.p}};
			auto to_option = [](const Setting &st) { return st.kind == 0 ? frg::option{st.name, frg::store_true(*(bool *)st.target)} : st.kind == 1 ? frg::option{st.name, frg::as_number(*(int32_t *)st.target)} : frg::option{st.name, frg::as_string_view(*(frg::string_view *)st.target)}; };
			frg::parse_arguments(v, settings | std::views::transform(to_option));
			for(auto *c : {&sv, &sv2}) { auto &sx = *(frg::string_view *)c->p; if(sx.size() && (sx.data() < g.data() || sx.data() + sx.size() > g.data() + line.size())) violation("C20:model:cmdline:value-outside-input", "option value view lies outside the command line (computed option table)"); }
			count("cmdline_computed_option_tables");
		} else
		if(table == 4) { // large option tables (65, 129, 1000 entries; every option has its own exact-size target cell): the number of
			// options is part of the input too - a scratch copy of the table with a fixed bound would be written past its end
			static const size_t sizes[] = {65, 129, 1000, 64, 63};
			size_t n = sizes[r.below(5)];
			std::vector<std::unique_ptr<Cell>> cells; std::vector<std::string> names; std::vector<frg::option> opts;
			names.reserve(n);
			for(size_t i = 0; i < n; i++) { names.push_back(i % 7 == 0 ? "a" : i % 7 == 1 ? "1" : "o" + std::to_string(i)); cells.emplace_back(new Cell(i % 3 == 0 ? sizeof(bool) : i % 3 == 1 ? 4 : sizeof(frg::string_view))); if(i % 3 == 2) new (cells.back()->p) frg::string_view(); }
			for(size_t i = 0; i < n; i++) opts.push_back(frg::option{frg::string_view(names[i].data(), names[i].size()), i % 3 == 0 ? frg::store_true(*(bool *)cells[i]->p) : i % 3 == 1 ? frg::as_number(*(int32_t *)cells[i]->p) : frg::as_string_view(*(frg::string_view *)cells[i]->p)});
			std::string extra = line + " o" + std::to_string(n - 1) + "=7 o" + std::to_string(n - 2) + " o" + std::to_string(n - 3) + "=v";
			GuardedBuf g2(extra.data(), extra.size());
			frg::parse_arguments(frg::string_view(g2.data(), extra.size()), opts);
			count("cmdline_large_option_tables");
		} else if(table == 0) { // flag-only
			frg::array args = {frg::option{"a", frg::store_true(*(bool *)flag_a.p)}, frg::option{"1", frg::store_false(*(bool *)flag_b.p)}, frg::option{"aa", frg::store_true(*(bool *)flag_b.p)}, frg::option{"", frg::store_true(*(bool *)flag_a.p)}};
			frg::parse_arguments(v, args);
		} else if(table == 1) { // valued
			frg::array args = {frg::option{"a", frg::as_string_view(*(frg::string_view *)sv.p)}, frg::option{"1", frg::as_string_view(*(frg::string_view *)sv2.p)}, frg::option{"a1", frg::as_string_view(*(frg::string_view *)sv2.p)}, frg::option{"", frg::as_string_view(*(frg::string_view *)sv.p)}};
			frg::parse_arguments(v, args);
			// the stored views must lie inside the command line
			for(auto *c : {&sv, &sv2}) { auto &s = *(frg::string_view *)c->p; if(s.size() && (s.data() < g.data() || s.data() + s.size() > g.data() + line.size())) violation("C20:model:cmdline:value-outside-input", strf("option value view lies outside the command line \"%s\"", line.c_str())); }
		} else if(table == 2) { // numeric signed/unsigned of several widths
			frg::array args = {frg::option{"a", frg::as_number(*(int8_t *)i8.p)}, frg::option{"1", frg::as_number(*(uint8_t *)u8.p)}, frg::option{"aa", frg::as_number(*(int32_t *)i32.p)}, frg::option{"a1", frg::as_number(*(uint64_t *)u64.p)}, frg::option{"11", frg::as_number(*(int64_t *)i64.p)}, frg::option{"1a", frg::as_number(*(uint16_t *)u16.p)}};
			frg::parse_arguments(v, args);
		} else { // duplicate names, mixed kinds, joined spans
			frg::array t1 = {frg::option{"a", frg::store_true(*(bool *)flag_a.p)}, frg::option{"a", frg::as_string_view(*(frg::string_view *)sv.p)}};
			frg::array t2 = {frg::option{"a", frg::as_number(*(int32_t *)i32.p)}, frg::option{"1", frg::store_true(*(bool *)flag_b.p)}};
			frg::array combined = {t1, t2};
			frg::parse_arguments(v, std::views::join(combined));
		}
		count("cmdline_completed");
	} catch(const PanicStop &) { count("cmdline_stopped_by_assertion"); }
}

// ------------------------------------------------------------------ to_number
template<typename T> static void to_number_one(const std::string &s) {
	GuardedBuf g(s.data(), s.size());
	frg::string_view v(g.data(), s.size());
	try {
		auto res = v.to_number<T>();
		count(res ? "to_number_value" : "to_number_null");
		// a value that is returned must be the value of the digit string
		if(res) {
			bool alldig = !s.empty(); for(char ch : s) if(ch < '0' || ch > '9') alldig = false;
			if(!s.empty() && !alldig) violation("C20:model:to_number:accepts-non-digit", strf("to_number accepted \"%s\"", s.c_str()));
			if(alldig) { unsigned __int128 ref = 0; bool big = false; for(char ch : s) { ref = ref * 10 + (ch - '0'); if(ref > (unsigned __int128)std::numeric_limits<T>::max()) { big = true; break; } }
				if(big) violation("C20:model:to_number:overflow-accepted", strf("to_number<%zu-byte %s>(\"%s\") returned a value although the number does not fit", sizeof(T), std::is_signed_v<T> ? "signed" : "unsigned", s.c_str()));
				else if((unsigned __int128)*res != ref) violation("C20:model:to_number:wrong-value", strf("to_number(\"%s\") returned a different value", s.c_str())); }
		}
	} catch(const PanicStop &) { count("to_number_stopped_by_assertion"); }
}
static void to_number_input(const std::string &s, Rng &) {
	case_detail("to_number \"%s\"", s.c_str());
	to_number_one<int8_t>(s); to_number_one<uint8_t>(s); to_number_one<int16_t>(s); to_number_one<uint16_t>(s);
	to_number_one<int32_t>(s); to_number_one<uint32_t>(s); to_number_one<int64_t>(s); to_number_one<uint64_t>(s);
}

// ------------------------------------------------------------------ longer grammar-based / mutated inputs
static std::string gen_printf(Rng &r) {
	std::string f;
	for(size_t k = 1 + r.below(6); k; k--) {
		switch(r.below(8)) {
		case 0: f += "text"; break;
		case 1: f += "%%"; break;
		case 2: f += "%"; break; // dangling
		default: {
			f += "%";
			if(r.chance(1, 4)) { f += std::to_string(r.below(11)); f += "$"; }
			for(size_t q = r.below(4); q; q--) { if(r.chance(1, 7)) { f.push_back((char)('0' + r.below(10))); f.push_back('$'); } else f.push_back("-+ #0'"[r.below(6)]); } // frigg's loop accepts "n$" between flags: the last one wins, "0$" makes the directive sequential
			if(r.chance(1, 2)) { if(r.chance(1, 4)) f += "*"; else f += std::to_string(r.chance(1, 10) ? r.next() % 100000 : r.below(40)); }
			if(r.chance(1, 3)) { f += "."; if(r.chance(1, 4)) f += "*"; else if(r.chance(3, 4)) f += std::to_string(r.below(40)); }
			f += r.pick(std::vector<std::string>{"", "", "h", "hh", "l", "ll", "z", "t", "j", "L", "hhh", "lll"});
			f.push_back("diuoxXcspbB%nfgeq$* "[r.below(20)]);
		} }
	}
	// mutation: delete / duplicate / truncate
	if(!f.empty() && r.chance(1, 3)) f.erase(r.below(f.size()), 1);
	if(!f.empty() && r.chance(1, 3)) f = f.substr(0, r.below(f.size() + 1));
	if(!f.empty() && r.chance(1, 4)) { size_t p = r.below(f.size()); f.insert(p, 1, f[p]); }
	for(auto &ch : f) if(ch == 0) ch = '0';
	return f;
}
static std::string gen_cmdline(Rng &r) {
	std::string s;
	for(size_t k = r.below(7); k; k--) {
		if(r.chance(1, 3)) s += "\"";
		s += r.pick(std::vector<std::string>{"a", "1", "aa", "a1", "", "x86.nosmp", "a b"});
		if(r.chance(1, 2)) { s += "="; s += r.pick(std::vector<std::string>{"", "1", "-1", "255", "256", "99999999999999999999", "v a l", "a=b", "\""}); }
		if(r.chance(1, 3)) s += "\"";
		s += r.pick(std::vector<std::string>{" ", " ", "  ", ""});
	}
	if(!s.empty() && r.chance(1, 4)) s.erase(r.below(s.size()), 1);
	return s;
}

// Known finding: with positional arguments, pop_arg() fetches every position up to the highest one with the *type of the
// directive that triggers the fetch*. "%2$d %1$s" therefore reads the string pointer as an int and later dereferences a
// half-garbage pointer. Demonstrated in a forked child because the witness kills the process.
static void positional_probe() {
	if(!want_mode("positional-probe")) return;
	struct Probe { const char *fmt; bool str_first; } probes[] = {{"%2$d %1$s", true}, {"%1$d %2$s", false}, {"%2$x|%1$.3s", true}};
	long long i = 0;
	for(auto &pb : probes) {
		begin_case("positional-probe", i++);
		case_detail("printf format \"%s\"", pb.fmt);
		std::string z = pb.fmt; z.push_back('\0');
		GuardedBuf gf(z.data(), z.size());
		std::vector<uint64_t> slots = pb.str_first ? std::vector<uint64_t>{(uint64_t)g_str_narrow->data(), 5} : std::vector<uint64_t>{5, (uint64_t)g_str_narrow->data()};
		int rc = in_child([&]() -> int {
			FriggResult fr = run_frigg(gf.data(), slots);
			std::string exp = run_glibc(gf.data(), slots);
			return fr.completed && fr.out == exp ? 0 : 3;
		});
		count("positional_probes");
		if(rc != 0) violation("C20:printf:positional-int-then-pointer", strf("printf_format(\"%s\", ...) with a valid argument list %s: a position first fetched through an int conversion is later dereferenced as a pointer whose upper half was never read from the argument list", pb.fmt, rc >= 80 ? "dies with a wild read" : "prints the wrong text"));
		note_distinct(hash_str(std::string("probe:") + pb.fmt));
	}
}

int main(int argc, char **argv) {
	parse_args(argc, argv, "c20_parsers");
	rec.rule = "a case is one byte string fed to one parser from an exact-size buffer (printf: with exactly the variadic slots an independent tokenizer says the directives consume); "
		"it must terminate without a sanitizer report, either completing or stopping through frg_panic; distinct = (parser, input string)";
	bool t = opt.thorough();
	{ std::string s = "narrow string"; s.push_back('\0'); g_keep.emplace_back(new GuardedBuf(s.data(), s.size())); g_str_narrow = g_keep.back().get(); }
	{ std::wstring w = L"wide string!"; w.push_back(L'\0'); g_keep.emplace_back(new GuardedBuf(w.data(), w.size() * sizeof(wchar_t))); g_str_wide = g_keep.back().get(); }
	if(opt.shard == 0) positional_probe();
	exhaustive_alphabet("printf-exh", "%$*.-09lhdsx", t ? 6 : 5, t ? 1 : 1, [](const std::string &s, Rng &r) { printf_input(s, r, false); });
	if(!t) exhaustive_alphabet("printf-exh6", "%$*.-09lhdsx", 6, 13, [](const std::string &s, Rng &r) { printf_input(s, r, false); }, 6);
	else exhaustive_alphabet("printf-exh7", "%$*.-09lhdsx", 7, 29, [](const std::string &s, Rng &r) { printf_input(s, r, false); }, 7);
	exhaustive_alphabet("printf-exh-b", "%#+ 'c1pXuzL", t ? 5 : 4, 1, [](const std::string &s, Rng &r) { printf_input(s, r, false); });
	exhaustive_alphabet("fmt-exh", "{}:09xq", t ? 7 : 6, 1, fmt_input);
	exhaustive_alphabet("cmdline-exh", "\" =a1", t ? 8 : 7, 1, cmdline_input);
	exhaustive_alphabet("to_number-exh", "091-a", t ? 8 : 7, 1, to_number_input);
	if(want_mode("to_number-long")) {
		Rng r(derive_seed("tn"));
		long long i = 0;
		for(size_t len = 1; len <= 22; len++) for(int kind = 0; kind < 6; kind++, i++) {
			if(i % opt.nshards != opt.shard) continue;
			begin_case("to_number-long", i);
			std::string s;
			for(size_t k = 0; k < len; k++) s.push_back(kind == 0 ? '9' : kind == 1 ? '0' : kind == 2 ? (k ? '0' : '1') : kind == 3 ? (char)('0' + r.below(10)) : kind == 4 ? (k == len - 1 ? 'x' : '7') : (k == 0 ? '-' : '1'));
			to_number_input(s, r);
			note_distinct(hash_str("tn:" + s));
		}
		for(const char *b : {"127", "128", "255", "256", "32767", "32768", "65535", "65536", "2147483647", "2147483648", "4294967295", "4294967296", "9223372036854775807", "9223372036854775808", "18446744073709551615", "18446744073709551616", ""}) { begin_case("to_number-long", i++); to_number_input(b, r); note_distinct(hash_str(std::string("tnb:") + b)); }
	}
	if(want_mode("printf-longnum")) {
		// digit runs of 1..30 digits in every numeric position of a directive (width, precision, before '$'), with and without a
		// conversion character behind them: the accumulation must neither overflow nor read past the terminator
		Rng r(derive_seed("pl"));
		long long i = 0;
		for(size_t len = 1; len <= 30; len++) for(int pat = 0; pat < 5; pat++) for(int place = 0; place < 6; place++, i++) {
			if(i % opt.nshards != opt.shard) continue;
			begin_case("printf-longnum", i);
			std::string num;
			for(size_t k = 0; k < len; k++) num.push_back(pat == 0 ? '9' : pat == 1 ? (k ? '0' : '1') : pat == 2 ? "9223372036854775808"[k % 19] : pat == 3 ? "2147483648"[k % 10] : (char)('1' + r.below(9)));
			std::string f = place == 0 ? "%" + num + "d" : place == 1 ? "%." + num + "d" : place == 2 ? "%" + num + "." + num + "s" : place == 3 ? "%" + num + "$d" : place == 4 ? "x%-" + num : "%#0" + num + "llx%." + num;
			printf_input(f, r, true);
			note_distinct(hash_str("pl:" + f));
			count("printf_long_number_cases");
			if(place < 3 && len <= 24) { std::string g = place == 0 ? "{:" + num + "}" : place == 1 ? "{" + num + "}" : "{" + num + ":0" + num + "x}"; if(len <= 6 || pat != 4) { /* widths up to 10^6 are really expanded */ } if(len > 6) fmt_input(g, r); else fmt_input(g, r); count("fmt_long_number_cases"); }
		}
		sample("printf-longnum: \"%9223372036854775808d\", \"%.99999999999999999999d\", \"%<30 digits>$d\", truncated \"x%-<digits>\"; the agent expands at most 1000 pad characters");
	}
	if(want_mode("long-inputs")) {
		// inputs far longer than anything the exhaustive alphabets or the 64-byte fuzz inputs contain: long runs of flags, digits,
		// directives, options, separators, quoted text (a fixed-size scratch array or a counter narrower than size_t shows up here)
		Rng r(derive_seed("long"));
		long long i = 0;
		auto rep = [](const std::string &u, size_t n) { std::string o; for(size_t k = 0; k < n; k++) o += u; return o; };
		std::vector<std::string> pf = {
			"%" + rep("-", 80) + "d", "%" + rep("0", 90) + "5d", "%" + rep("+ #0-'", 40) + "x", "%" + rep("7", 300) + "d", "%." + rep("3", 300) + "s", "%" + rep("1", 200) + "$d",
			rep("%d", 200), rep("%5.3ld|", 120), rep("%s", 150), rep("%1$d ", 100), rep("%%", 500), rep("x", 5000), rep("%c%s%p", 70), "%" + rep("l", 70) + "d", "%" + rep("h", 71) + "u", rep("%*d", 90), rep("%.*s", 90),
			rep("%-08.3llx ", 64) + "%", rep("%2$s %1$s ", 60), "%" + rep("9", 100) + "." + rep("9", 100) + "d" };
		for(auto &f : pf) { if((i++ % opt.nshards) != opt.shard) continue; begin_case("long-inputs", i); printf_input(f, r, true); note_distinct(hash_str("lp:" + f)); count("long_input_cases"); }
		std::vector<std::string> ff = { "{" + rep("4", 300) + "}", "{:" + rep("8", 300) + "}", "{0:0" + rep("1", 300) + "x}", rep("{}", 300), rep("{0} ", 200), rep("{", 400), rep("}", 400), rep("{:x}{:08d}", 100), rep("a", 6000), "{" + rep(":", 300) + "}" };
		for(auto &f : ff) { if((i++ % opt.nshards) != opt.shard) continue; begin_case("long-inputs", i); fmt_input(f, r); note_distinct(hash_str("lf:" + f)); count("long_input_cases"); }
		std::vector<std::string> cl = { rep("a=1 ", 300), rep("a ", 500), rep(" ", 3000), "s=" + rep("v", 5000), "\"" + rep("q ", 1500) + "\"", rep("\"a=1\" ", 200), rep("=", 2000), rep("\"", 1001), rep("n=127 u=5 i=-3 h=65535 s=x b a ", 100), "u=" + rep("9", 400), rep("x86.nosmp ", 200) + "a", rep("a=", 700) };
		for(auto &f : cl) { if((i++ % opt.nshards) != opt.shard) continue; begin_case("long-inputs", i); cmdline_input(f, r); note_distinct(hash_str("lc:" + f)); count("long_input_cases"); }
		std::vector<std::string> tn = { rep("9", 300), rep("0", 300) + "1", "-" + rep("1", 300), rep("0", 5000), rep("1", 64), rep("7", 65) };
		for(auto &f : tn) { if((i++ % opt.nshards) != opt.shard) continue; begin_case("long-inputs", i); to_number_input(f, r); note_distinct(hash_str("lt:" + f)); count("long_input_cases"); }
		// random long mixtures
		for(uint64_t k = 0; k < scaled(300, 20000); k++) {
			begin_case("long-inputs", 1000 + k);
			std::string f; size_t target = 100 + r.below(900);
			int kind = r.below(3);
			while(f.size() < target) f += kind == 0 ? gen_printf(r) : kind == 1 ? gen_cmdline(r) : std::string(1 + r.below(6), "{}:0123456789x "[r.below(15)]);
			if(kind == 0) printf_input(f, r, false); else if(kind == 1) cmdline_input(f, r); else fmt_input(f, r);
			note_distinct(hash_str("lr:" + f)); count("long_input_cases");
		}
		sample("long-inputs: 80 flags, 300-digit widths/precisions/positions, 200 directives, 6000 literal bytes, 300 options on one command line, 5000-byte values, 3000 separators, 300-digit numbers; random concatenations up to 1000 bytes");
	}
	if(want_mode("printf-gen")) {
		Rng r(derive_seed("pg"));
		uint64_t n = scaled(400000, 3000000);
		for(uint64_t i = 0; i < n; i++) { begin_case("printf-gen", i); Rng rr(r.next()); std::string f = gen_printf(rr); printf_input(f, rr, i % 5000 == 0); note_distinct(hash_str("pg:" + f)); }
		sample("printf-gen: e.g. \"%3$-#07.*llx text%%%hhh\" (grammar-generated, then a character deleted / duplicated / the tail truncated)");
	}
	if(want_mode("cmdline-gen")) {
		Rng r(derive_seed("cg"));
		uint64_t n = scaled(200000, 2000000);
		for(uint64_t i = 0; i < n; i++) { begin_case("cmdline-gen", i); Rng rr(r.next()); std::string s = gen_cmdline(rr); cmdline_input(s, rr); note_distinct(hash_str("cg:" + s)); }
		sample("cmdline-gen: e.g. \"\\\"a=v a l\\\" a1=99999999999999999999 \\\"aa\" over four option tables (flags, string views, numbers of 6 widths, duplicate names via joined spans)");
	}
	if(want_mode("fmt-gen")) {
		Rng r(derive_seed("fg"));
		uint64_t n = scaled(150000, 1500000);
		for(uint64_t i = 0; i < n; i++) { begin_case("fmt-gen", i); Rng rr(r.next()); std::string f; for(size_t k = rr.below(24); k; k--) f.push_back("{}{}::0123456789xXbcdoiq {"[rr.below(26)]); fmt_input(f, rr); note_distinct(hash_str("fg:" + f)); }
	}
	return finish();
}
