// C09 (exact map, stable addresses, ordered iteration) and the radix-tree part of C16 (values present at destruction are
// destroyed once, every node released once with its allocation size).
//   --arg prop=C09 | prop=C16
#include "common/verif.hpp"
#include "common/track.hpp"
#include <frg/rcu_radixtree.hpp>
#include <map>
#include <set>
#include <initializer_list>
#include <algorithm>
#include <numeric>

using namespace verif;

static std::string g_prop = "C09";
static bool g_model_armed = true;

struct Val {
	uint64_t key, version;
	Elem tracker;
	Val(uint64_t k, uint64_t v) : key(k), version(v), tracker((int)(k ^ v)) {}
};
using Tree = frg::rcu_radixtree<Val, TrackedAlloc>;

static bool g_bad = false;
static std::string g_trace;
static void fail(const std::string &kind, const std::string &msg) {
	if(g_bad) return; g_bad = true;
	count("model_mismatches_flagged");
	case_detail("%s", g_trace.substr(0, 3500).c_str());
	if(g_model_armed) violation("C09:model:radixtree:" + kind, msg + " after [" + g_trace.substr(0, 700) + "]");
}

struct Model {
	struct Ent { Val *addr; uint64_t version; };
	std::map<uint64_t, Ent> present;
	uint64_t next_version = 1;
	uint64_t erased_never_destroyed = 0, constructed_over_erased = 0;
	std::map<Val *, bool> abandoned; // addresses of erased (never destroyed) values
};

struct Subject {
	AllocState as;
	Tree *tree;
	Model m;
	Subject() { as.owner = "radixtree"; g_elems.owner = "radixtree"; tree = new Tree(TrackedAlloc(&as)); }
	~Subject() { if(tree) destroy(); }
	void destroy() {
		delete tree; tree = nullptr;
		// values erased before destruction are never destroyed by the tree (see DESIGN.md C16): counted, not flagged
		for(auto &kv : m.abandoned) { g_elems.alive.erase(&kv.first->tracker); }
		count("radix_erased_never_destroyed", m.erased_never_destroyed);
		count("radix_constructed_over_erased", m.constructed_over_erased);
	}

	void check_key(uint64_t k) {
		if(g_bad) return;
		Val *f = tree->find(k);
		auto it = m.present.find(k);
		count("finds");
		if(it == m.present.end()) { if(f) fail("find-absent", strf("find(%016llx) returns a value but the key is not present", (unsigned long long)k)); return; }
		if(!f) return fail("find-present-null", strf("find(%016llx) = null but the key is present", (unsigned long long)k));
		if(f != it->second.addr) return fail("address-moved", strf("find(%016llx) returns %p, the value was inserted at %p", (unsigned long long)k, (void *)f, (void *)it->second.addr));
		if(f->key != k || f->version != it->second.version) return fail("wrong-value", strf("find(%016llx) returns the value of key %016llx (version %llu, expected %llu)", (unsigned long long)k, (unsigned long long)f->key, (unsigned long long)f->version, (unsigned long long)it->second.version));
	}
	void check_all() { for(auto &kv : m.present) { check_key(kv.first); if(g_bad) return; } }
	void check_iteration() {
		if(g_bad) return;
		auto it = tree->begin();
		auto mi = m.present.begin();
		size_t n = 0;
		for(; it != tree->end(); ++it, ++mi, ++n) {
			if(mi == m.present.end()) return fail("iter-extra", strf("iteration yields more than the %zu present keys (extra key %016llx)", m.present.size(), (unsigned long long)(*it).key));
			if(&*it != mi->second.addr || it->key != mi->first) return fail("iter-order", strf("iteration position %zu yields key %016llx, expected %016llx", n, (unsigned long long)it->key, (unsigned long long)mi->first));
		}
		if(mi != m.present.end()) return fail("iter-missing", strf("iteration stops after %zu of %zu present keys", n, m.present.size()));
		count("iterations");
	}
	void on_new_value(Val *p) {
		auto ab = m.abandoned.find(p);
		if(ab != m.abandoned.end()) { m.abandoned.erase(ab); m.constructed_over_erased++; }
	}
	void pre_insert_slot_cleanup(uint64_t) {}

	void insert(uint64_t k) { // key must be absent
		uint64_t v = m.next_version++;
		g_trace += strf("ins(%016llx) ", (unsigned long long)k);
		// an erased-but-never-destroyed value may still occupy the slot: hide it from the lifetime registry first
		forget_abandoned_at_slot(k);
		Val *p = tree->insert(k, k, v);
		if(!p) return fail("insert-null", "insert returned null");
		on_new_value(p);
		m.present[k] = {p, v};
		if(p->key != k || p->version != v) fail("wrong-value", "insert returned a value with other contents");
		count("inserts");
	}
	void find_or_insert(uint64_t k) {
		uint64_t v = m.next_version++;
		g_trace += strf("foi(%016llx) ", (unsigned long long)k);
		bool was = m.present.count(k);
		if(!was) forget_abandoned_at_slot(k);
		auto res = tree->find_or_insert(k, k, v);
		Val *p = res.get<0>(); bool inserted = res.get<1>();
		if(inserted == was) return fail("find_or_insert-flag", strf("find_or_insert(%016llx) reports inserted=%d but the key was %s", (unsigned long long)k, (int)inserted, was ? "present" : "absent"));
		if(was) { if(p != m.present[k].addr) return fail("second-value", "find_or_insert on a present key returned a different object"); if(p->version != m.present[k].version) return fail("second-value", "find_or_insert on a present key changed the value"); }
		else { on_new_value(p); m.present[k] = {p, v}; }
		count("find_or_inserts");
	}
	std::map<uint64_t, Val *> erased_slots; // key -> address of its erased value
	void forget_abandoned_at_slot(uint64_t k) {
		auto e = erased_slots.find(k);
		if(e == erased_slots.end()) return;
		// the tree is about to construct a new T over the never-destroyed erased value (informational, see DESIGN.md)
		g_elems.alive.erase(&e->second->tracker);
		erased_slots.erase(e);
	}
	void erase(uint64_t k) { // key must be present
		g_trace += strf("erase(%016llx) ", (unsigned long long)k);
		Val *p = m.present[k].addr;
		tree->erase(k);
		m.present.erase(k);
		m.abandoned[p] = true; erased_slots[k] = p; m.erased_never_destroyed++;
		count("erases");
	}
};

// ------------------------------------------------------------------ key generators
static std::vector<uint64_t> adversarial_pool() {
	std::vector<uint64_t> pool;
	const uint64_t B = 0x123456789ABCDEF0ull;
	for(int d = 0; d < 16; d++) pool.push_back(B ^ (0x8ull << (60 - 4 * d)));   // first differs from B at nibble d
	pool.push_back(B);
	pool.push_back(0); pool.push_back(~0ull); pool.push_back(1); pool.push_back(~0ull - 1);
	pool.push_back(0x8000000000000000ull); pool.push_back(0x7fffffffffffffffull); pool.push_back(0x1000000000000000ull); pool.push_back(0xF000000000000000ull);
	for(int i = 1; i <= 6; i++) pool.push_back(B + i);                           // dense inside one leaf
	pool.push_back(B + 0x10); pool.push_back(B + 0x100); pool.push_back(0x10); pool.push_back(0xF);
	pool.push_back(0x0000000100000000ull); pool.push_back(0x00000000FFFFFFFFull); pool.push_back(0xFFFFFFFF00000000ull);
	std::sort(pool.begin(), pool.end()); pool.erase(std::unique(pool.begin(), pool.end()), pool.end());
	return pool;
}

static uint64_t random_key(Rng &r, const std::vector<uint64_t> &pool, const std::map<uint64_t, Model::Ent> &present) {
	switch(r.below(8)) {
	case 0: return pool[r.below(pool.size())];
	case 1: return r.next();
	case 2: return r.next() >> (4 * r.below(16));
	case 3: return r.below(64);
	case 4: case 5: if(!present.empty()) { // neighbour of a present key: flip one nibble
		auto it = present.begin(); std::advance(it, r.below(std::min<size_t>(present.size(), 32)));
		return it->first ^ ((1 + r.below(15)) << (4 * r.below(16))); }
		return r.next();
	case 6: if(!present.empty()) { auto it = present.begin(); std::advance(it, r.below(std::min<size_t>(present.size(), 32))); return it->first + 1 + r.below(15); } return r.next();
	default: return (r.next() & 0xF) << 60 | r.below(256);
	}
}

static void finish_case(Subject &s) {
	bool ok = true;
	try { s.destroy(); } catch(const PanicStop &p) { ok = false; violation(g_prop + ":assert:in-destructor:radixtree", std::string("assertion in ~rcu_radixtree: ") + p.msg); }
	if(ok) {
		expect_no_elems("after destroying the radix tree (values present at destruction)");
		expect_no_blocks(s.as, "after destroying the radix tree (nodes)");
	} else { g_elems.alive.clear(); for(auto &kv : s.as.live) ::free(kv.first); s.as.live.clear(); }
}

// ------------------------------------------------------------------ exhaustive arrival orders of small key sets
static void exhaustive_orders(const char *mode, unsigned setsize, uint64_t nsets) {
	if(!want_mode(mode)) return;
	auto pool = adversarial_pool();
	Rng sr(derive_seed(mode));
	long long idx = 0;
	for(uint64_t si = 0; si < nsets; si++) {
		// choose a key set: the first 16 sets are "B and the key differing at nibble d" pairs extended; others random subsets
		std::vector<uint64_t> keys;
		Rng r(sr.next());
		if(si < 16 && opt.shard == 0) { keys = {0x123456789ABCDEF0ull, 0x123456789ABCDEF0ull ^ (0x8ull << (60 - 4 * si))}; }
		while(keys.size() < setsize) { uint64_t k = pool[r.below(pool.size())]; if(std::find(keys.begin(), keys.end(), k) == keys.end()) keys.push_back(k); }
		std::sort(keys.begin(), keys.end());
		std::vector<int> perm(keys.size()); std::iota(perm.begin(), perm.end(), 0);
		do {
			long long my = idx++;
			if(!want_case(my)) continue;
			begin_case(mode, my);
			g_bad = false; g_trace.clear();
			Subject s;
			guarded(g_prop.c_str(), [&] {
				for(size_t i = 0; i < perm.size() && !g_bad; i++) {
					if(i % 2) s.find_or_insert(keys[perm[i]]); else s.insert(keys[perm[i]]);
					s.check_all();
					for(uint64_t k : keys) s.check_key(k);
					s.check_iteration();
				}
				// probe every pool key (absent neighbours at each nibble)
				for(uint64_t k : pool) s.check_key(k);
				// erase in permuted order, re-insert one, check again
				for(size_t i = 0; i < perm.size() && !g_bad; i++) {
					uint64_t k = keys[perm[(i + 1) % perm.size()]];
					s.erase(k); s.check_all(); s.check_key(k); s.check_iteration();
					if(i == 1) { s.insert(k); s.check_all(); s.check_iteration(); s.erase(k); }
				}
				if(!g_bad && !s.m.present.empty()) fail("harness", "model not empty");
				// refill so that destruction has present values
				for(size_t i = 0; i < perm.size() && !g_bad; i += 2) s.find_or_insert(keys[perm[i]]);
				s.check_all(); s.check_iteration();
			});
			finish_case(s);
			uint64_t h = hash_str(mode); for(int p : perm) h = mix(h, keys[p]);
			note_distinct(h);
			count("exhaustive_orders");
		} while(std::next_permutation(perm.begin(), perm.end()));
	}
	rec.notes[mode] = strf("%llu key sets of size %u from a %zu-key adversarial pool (first-difference at every nibble 0..15, dense leaf runs, 0, 2^64-1) x all %u! arrival orders", (unsigned long long)nsets, setsize, pool.size(), setsize);
}

// ------------------------------------------------------------------ random histories
static void random_histories(const char *mode, uint64_t ncases, unsigned nops, size_t check_all_below) {
	if(!want_mode(mode)) return;
	auto pool = adversarial_pool();
	Rng sr(derive_seed(mode));
	for(uint64_t c = 0; c < ncases; c++) {
		uint64_t cs = sr.next();
		if(!want_case(c)) continue;
		begin_case(mode, c);
		g_bad = false; g_trace.clear();
		Rng r(cs);
		Subject s;
		std::vector<uint64_t> erased;
		guarded(g_prop.c_str(), [&] {
			int phase = 0;
			for(unsigned i = 0; i < nops && !g_bad; i++) {
				if(i % 50 == 0) phase = r.below(3);
				int k10 = r.below(10);
				int op = phase == 0 ? (k10 < 6 ? 0 : k10 < 8 ? 1 : 2) : phase == 1 ? (k10 < 2 ? 0 : k10 < 7 ? 2 : 1) : (k10 < 4 ? 0 : k10 < 7 ? 1 : 2);
				if(op == 0) {
					uint64_t k = (!erased.empty() && r.chance(1, 4)) ? erased[r.below(erased.size())] : random_key(r, pool, s.m.present);
					if(s.m.present.count(k) || r.chance(1, 2)) s.find_or_insert(k); else s.insert(k);
					s.check_key(k);
				} else if(op == 1) {
					uint64_t k = random_key(r, pool, s.m.present);
					s.check_key(k);
					if(!s.m.present.empty()) { auto it = s.m.present.lower_bound(k); if(it == s.m.present.end()) it = s.m.present.begin(); s.check_key(it->first); }
				} else if(!s.m.present.empty()) {
					auto it = s.m.present.lower_bound(r.next()); if(it == s.m.present.end()) it = s.m.present.begin();
					uint64_t k = it->first;
					s.erase(k); erased.push_back(k); s.check_key(k);
				}
				if(g_trace.size() > 6000) g_trace = "... ";
				if(s.m.present.size() <= check_all_below || i % 64 == 0) { s.check_all(); s.check_iteration(); }
			}
			s.check_all(); s.check_iteration();
			if(s.m.present.size() > rec.counters["max_present_keys"]) rec.counters["max_present_keys"] = s.m.present.size();
		});
		finish_case(s);
		note_distinct(mix(hash_str(mode), cs));
		count("random_histories");
	}
}

// ------------------------------------------------------------------ what insert(k, args...) constructs must not depend on the tree's shape
// Probe distinguishes the ways a value can be built from the same arguments (list-initialisation picks the initializer_list
// constructor, direct-initialisation the (int,int) one) and records whether its arguments arrived as lvalues or rvalues. Which way
// the tree uses is its business; that the same call builds the value the same way whether it opens a new leaf, splits a prefix or
// lands in an existing leaf is what "find returns the value inserted under that key" needs.
struct Probe {
	int how; int a, b;
	Probe(std::initializer_list<int> l) : how(1), a(l.size() > 0 ? *l.begin() : -1), b(l.size() > 1 ? *(l.begin() + 1) : -1) {}
	Probe(int x, int y) : how(2), a(x), b(y) {}
};
struct PlainAlloc { void *allocate(size_t n) { return malloc(n); } void deallocate(void *p, size_t) { free(p); } void free(void *p) { ::free(p); } };
static void construction_consistency() {
	if(!want_mode("construct")) return;
	Rng r(derive_seed("construct"));
	for(uint64_t c = opt.shard; c < scaled(300, 5000); c += opt.nshards) {
		begin_case("construct", c);
		guarded(g_prop.c_str(), [&] {
			frg::rcu_radixtree<Probe, PlainAlloc> tree{PlainAlloc{}};
			std::map<uint64_t, std::pair<int, int>> model; std::set<int> hows;
			uint64_t base = r.next();
			for(int i = 0; i < 40; i++) {
				uint64_t k = r.chance(1, 2) ? base + r.below(40) : (r.chance(1, 2) ? base ^ ((uint64_t)(1 + r.below(15)) << (4 * r.below(16))) : r.next());
				if(model.count(k)) continue;
				int x = (int)r.below(1000), y = (int)r.below(1000);
				Probe *p;
				if(r.chance(1, 2)) p = tree.insert(k, x, y); else p = tree.find_or_insert(k, x, y).template get<0>();
				model[k] = {x, y}; hows.insert(p->how);
				if(p->a != x || p->b != y) { if(g_model_armed) violation("C09:model:radixtree:constructed-value", strf("insert(%016llx, %d, %d) constructed a value holding (%d, %d)", (unsigned long long)k, x, y, p->a, p->b)); return; }
			}
			if(hows.size() > 1 && g_model_armed) violation("C09:model:radixtree:construction-depends-on-tree-shape", "the same insert(k, a, b) call list-initialises the value for some keys and direct-initialises it for others (depending on whether the key opens a new leaf, splits a prefix or lands in an existing leaf)");
			for(auto &kv : model) { Probe *p = tree.find(kv.first); if(!p || p->a != kv.second.first || p->b != kv.second.second) { if(g_model_armed) violation("C09:model:radixtree:constructed-value", "find() returns a value that differs from the arguments given to insert()"); return; } }
		});
		note_distinct(mix(hash_str("construct"), c)); count("construction_consistency_cases");
	}
}

// ------------------------------------------------------------------ plain-data values used operator[]-style
// `insert(k)` / `find_or_insert(k)` without constructor arguments value-initialise the entry (counters, pointers and plain structs
// start at zero), also in a slot whose previous value was erased after it had been written to.
struct Counters { uint64_t hits, last; };
struct Defaults { uint64_t id = 0; uint32_t refs = 1; uint32_t flags = 0; uint64_t owner = ~0ull; }; // plain data whose value-initialised state is not all-zero bytes
template<typename T> static uint64_t first_word(const T &v) { uint64_t w = 0; memcpy(&w, &v, sizeof(T) < 8 ? sizeof(T) : 8); return w; }
// a value-initialised T{} as the tree has to produce it (compared bytewise; the types used here have no padding)
template<typename T> static bool is_value_initialised(const T &v) { T fresh{}; return memcmp(&v, &fresh, sizeof(T)) == 0; }
template<typename T>
static void plain_values_case(const char *tname, Rng &r) {
	frg::rcu_radixtree<T, PlainAlloc> tree{PlainAlloc{}};
	std::map<uint64_t, uint64_t> model; // key -> expected first word
	uint64_t base = r.next();
	std::vector<uint64_t> keys;
	for(int i = 0; i < 12; i++) keys.push_back(r.chance(1, 2) ? base + r.below(20) : base ^ ((uint64_t)(1 + r.below(15)) << (4 * r.below(16))));
	for(int i = 0; i < 120; i++) {
		uint64_t k = keys[r.below(keys.size())];
		bool present = model.count(k);
		int op = r.below(4);
		if(op == 0 && !present) {
			T *p = tree.insert(k);
			if(!is_value_initialised(*p)) { if(g_model_armed) violation(std::string("C09:model:radixtree:value-initialised:") + tname, strf("insert(%016llx) without arguments returned an entry that is not a value-initialised %s (first word %llx): an old value shows through, or the entry was never constructed", (unsigned long long)k, tname, (unsigned long long)first_word(*p))); return; }
			model[k] = first_word(*p);
		} else if(op == 1) {
			auto res = tree.find_or_insert(k); T *p = res.template get<0>();
			if(res.template get<1>() == present) { if(g_model_armed) violation("C09:model:radixtree:find_or_insert-flag", "find_or_insert(k) reports insertion for a present key or none for an absent one"); return; }
			if(present ? first_word(*p) != model[k] : !is_value_initialised(*p)) { if(g_model_armed) violation(std::string("C09:model:radixtree:value-initialised:") + tname, strf("find_or_insert(%016llx) without arguments returned an entry whose first word is %llx, expected %llx", (unsigned long long)k, (unsigned long long)first_word(*p), (unsigned long long)(present ? model[k] : 0))); return; }
			if(!present) model[k] = first_word(*p);
		} else if(op == 2 && present) {
			T *p = tree.find(k); if(!p) { if(g_model_armed) violation("C09:model:radixtree:find-present", "find() misses a present key of a plain-data tree"); return; }
			uint64_t w = r.next() | 1; memset((void *)p, 0, sizeof(T)); memcpy((void *)p, &w, sizeof(T) < 8 ? sizeof(T) : 8); model[k] = first_word(*p); // the user writes to the entry
		} else if(op == 3 && present) { tree.erase(k); model.erase(k); }
		count("plain_value_operations");
	}
	for(auto &kv : model) { T *p = tree.find(kv.first); if(!p || first_word(*p) != kv.second) { if(g_model_armed) violation("C09:model:radixtree:plain-value-content", "find() of a plain-data tree returns an entry that does not hold what was last written to it"); return; } }
}
static void plain_values() {
	if(!want_mode("plain-values")) return;
	Rng r(derive_seed("plain-values"));
	for(uint64_t c = opt.shard; c < scaled(400, 8000); c += opt.nshards) {
		begin_case("plain-values", c);
		guarded(g_prop.c_str(), [&] {
			switch(c % 5) { case 4: plain_values_case<Defaults>("struct with default member initialisers", r); break; case 0: plain_values_case<uint64_t>("uint64_t", r); break; case 1: plain_values_case<Counters>("struct{u64,u64}", r); break; case 2: plain_values_case<void *>("void*", r); break; default: plain_values_case<uint16_t>("uint16_t", r); break; }
		});
		note_distinct(mix(hash_str("plain-values"), c)); count("plain_value_cases");
	}
}

// ------------------------------------------------------------------ insertions whose value constructor fails (throws)
// A failed insertion must leave the map as it was: the key absent, every other key found, iteration unchanged. (What becomes of
// the nodes allocated for the failed insertion is not looked at here.)
struct CtorFailed {};
struct ThrowVal { uint64_t key; bool ok; ThrowVal(uint64_t k, bool fail) : key(k), ok(true) { if(fail) throw CtorFailed{}; } };
static void throwing_constructors() {
	if(!want_mode("throwing-ctor") || !g_model_armed) return;
	Rng r(derive_seed("throwing-ctor"));
	for(uint64_t c = opt.shard; c < scaled(400, 8000); c += opt.nshards) {
		begin_case("throwing-ctor", c);
		g_bad = false; g_trace.clear();
		guarded(g_prop.c_str(), [&] {
			frg::rcu_radixtree<ThrowVal, PlainAlloc> tree{PlainAlloc{}};
			std::map<uint64_t, ThrowVal *> model;
			uint64_t base = r.next();
			for(int i = 0; i < 30 && !g_bad; i++) {
				uint64_t k = r.chance(1, 3) ? base + r.below(40) : (r.chance(1, 2) ? base ^ ((uint64_t)(1 + r.below(15)) << (4 * r.below(16))) : r.next());
				if(model.count(k)) continue;
				bool fails = r.chance(1, 3);
				g_trace += strf("%s(%016llx) ", fails ? "insert-ctor-throws" : "insert", (unsigned long long)k);
				try { ThrowVal *p = r.chance(1, 2) ? tree.insert(k, k, fails) : tree.find_or_insert(k, k, fails).template get<0>(); model[k] = p; if(fails) fail("ctor", "an insertion whose constructor threw returned normally"); }
				catch(const CtorFailed &) { if(!fails) fail("ctor", "unexpected exception"); count("failed_insertions"); }
				if(tree.find(k) != (model.count(k) ? model[k] : nullptr)) fail("find-after-failed-insert", strf("find(%016llx) after %s", (unsigned long long)k, fails ? "a failed insertion returns a value" : "an insertion does not return the inserted value"));
				for(auto &kv : model) if(tree.find(kv.first) != kv.second) { fail("find-present-null", strf("find(%016llx) no longer returns the inserted value", (unsigned long long)kv.first)); break; }
				auto mi = model.begin(); size_t n = 0;
				for(auto it = tree.begin(); it != tree.end() && !g_bad; ++it, ++n) { if(mi == model.end() || &*it != mi->second) { fail("iter-extra", strf("iteration position %zu does not yield the %zu present keys in order (after a failed insertion the tree still contains traces of it?)", n, model.size())); break; } ++mi; }
				if(!g_bad && mi != model.end()) fail("iter-missing", strf("iteration stops after %zu of %zu present keys", n, model.size()));
			}
		});
		note_distinct(mix(hash_str("throwing-ctor"), c)); count("throwing_constructor_cases");
	}
}

// ------------------------------------------------------------------ the owner inserts and erases while it walks the tree
// (coalescing neighbours, splitting an entry ahead of the cursor): each step of the walk must yield the smallest key that is present
// at that moment and larger than the previous one - an erased key ahead of the cursor is not visited, an inserted one is
static void modify_while_iterating() {
	if(!want_mode("iterate-modify") || !g_model_armed) return;
	Rng r(derive_seed("iterate-modify"));
	for(uint64_t c = opt.shard; c < scaled(400, 8000); c += opt.nshards) {
		begin_case("iterate-modify", c);
		g_bad = false; g_trace.clear();
		guarded(g_prop.c_str(), [&] {
			frg::rcu_radixtree<ThrowVal, PlainAlloc> tree{PlainAlloc{}};
			std::set<uint64_t> model;
			uint64_t base = (r.next() & ~0xFFull);
			auto key = [&] { return r.chance(3, 4) ? base + r.below(48) : base + (r.below(6) << 8) + r.below(16); }; // three adjacent leaves + a few further ones
			for(int i = 0; i < 24; i++) { uint64_t k = key(); if(model.insert(k).second) tree.insert(k, k, false); }
			bool have_last = false; uint64_t last = 0; size_t steps = 0;
			for(auto it = tree.begin(); it != tree.end() && !g_bad; ++it) {
				auto exp = have_last ? model.upper_bound(last) : model.begin();
				if(exp == model.end() || it->key != *exp) { fail("iter-live", strf("while the owner modifies the tree during the walk, step %zu yields key %016llx but the smallest present key after the previous one is %s", steps, (unsigned long long)it->key, exp == model.end() ? "none" : strf("%016llx", (unsigned long long)*exp).c_str())); break; }
				last = it->key; have_last = true; steps++;
				// modify ahead of and behind the cursor
				for(int m = 0; m < 2; m++) {
					uint64_t k = key();
					if(k == last) continue;
					if(model.count(k)) { if(r.chance(1, 2)) { g_trace += strf("erase(%016llx)@%zu ", (unsigned long long)k, steps); tree.erase(k); model.erase(k); } }
					else { g_trace += strf("insert(%016llx)@%zu ", (unsigned long long)k, steps); tree.insert(k, k, false); model.insert(k); }
				}
				if(steps > 500) { fail("iter-live", "the walk does not end"); break; }
			}
			if(!g_bad && have_last && model.upper_bound(last) != model.end()) fail("iter-missing", "the walk ended although a larger key is present");
		});
		note_distinct(mix(hash_str("iterate-modify"), c)); count("iterate_while_modifying_cases");
	}
}

int main(int argc, char **argv) {
	parse_args(argc, argv, "c09_radix");
	if(opt.replay_arg.find("prop=C16") != std::string::npos) g_prop = "C16";
	g_lifetime_armed = (g_prop == "C16");
	g_model_armed = (g_prop == "C09");
	rec.rule = "a case is one insert/find_or_insert/erase/re-insert history over 64-bit keys; after every operation find() of present, absent and neighbouring keys is compared with a std::map model "
		"(address recorded at insertion, (key,version) contents), iteration must yield exactly the present keys ascending; distinct = hash of (key set, arrival order) or history seed";
	bool t = opt.thorough();
	exhaustive_orders("exh:pairs+3", 3, t ? 400 : 60);
	exhaustive_orders("exh:4", 4, t ? 300 : 40);
	exhaustive_orders("exh:5", 5, t ? 120 : 12);
	if(t) exhaustive_orders("exh:6", 6, 30);
	random_histories("rand:small", scaled(300, 10000), 120, 40);
	random_histories("rand:large", scaled(8, 300), t ? 20000 : 4000, 0);
	construction_consistency();
	plain_values();
	throwing_constructors();
	modify_while_iterating();
	sample("exh:4: keys {B, B^8<<60 (differs at the most significant nibble), B+1, 0} inserted in every order (insert / find_or_insert alternating), all finds + iteration after each step, then erase/re-insert");
	sample("rand:large: 4000 (thorough 20000) ops of insert/find_or_insert/find/erase/re-insert over keys from {adversarial pool, random, short, neighbours differing in one nibble}");
	return finish();
}
