// C12: (a) lock guards stay balanced on every path (E1, exhaustive operation sequences over two guards and two mutexes);
//      (b) ticket_spinlock / simple_spinlock under the controlled scheduler (E3): mutual exclusion, ticket order,
//          hand-over, no deadlock/livelock, at the granularity of the individual atomic operations.
#define VERIF_SCHED_HOOK
#include "common/verif.hpp"
#include "common/sched.hpp"
#include <frg/spinlock.hpp>
#include <frg/mutex.hpp>
#include <frg/qs.hpp>
#include <optional>
#include <map>

using namespace verif;

// ------------------------------------------------------------------ (a) guards
struct LogMutex {
	int excl = 0, shared = 0;
	uint64_t n_lock = 0, n_unlock = 0, n_lock_shared = 0, n_unlock_shared = 0;
	std::string name;
	bool bad = false; std::string why;
	void lock() { n_lock++; if(excl || shared) { bad = true; why = "lock() on a mutex that is already held (deadlock with a real mutex)"; } excl++; }
	void unlock() { n_unlock++; if(excl != 1) { bad = true; why = "unlock() on a mutex that is not exclusively held"; } else excl--; }
	void lock_shared() { n_lock_shared++; if(excl) { bad = true; why = "lock_shared() while exclusively held"; } shared++; }
	void unlock_shared() { n_unlock_shared++; if(shared < 1) { bad = true; why = "unlock_shared() without a shared hold"; } else shared--; }
};

template<typename G> struct GuardKind;
template<> struct GuardKind<frg::unique_lock<LogMutex>> { static constexpr const char *name = "unique_lock"; static constexpr bool shared = false; };
template<> struct GuardKind<frg::shared_lock<LogMutex>> { static constexpr const char *name = "shared_lock"; static constexpr bool shared = true; };

template<typename G>
struct GuardWorld {
	static constexpr bool SH = GuardKind<G>::shared;
	LogMutex m[2];
	std::optional<G> g[2];
	struct MG { bool exists = false; int mtx = -1; bool locked = false; } mg[2];
	bool bad = false; std::string trace;

	int model_holds(int mi) const { int c = 0; for(auto &x : mg) if(x.exists && x.mtx == mi && x.locked) c++; return c; }
	void fail(const std::string &kind, const std::string &msg) {
		if(bad) return; bad = true;
		case_detail("%s", trace.c_str());
		violation(std::string("C12:guard:") + GuardKind<G>::name + ":" + kind, std::string(GuardKind<G>::name) + " after [" + trace + "]: " + msg);
	}
	void check() {
		if(bad) return;
		for(int i = 0; i < 2; i++) {
			if(m[i].bad) return fail("mutex-misuse", m[i].why);
			int holds = model_holds(i) + extern_hold[i];
			int actual = SH ? m[i].shared : m[i].excl;
			if(actual != holds) return fail("imbalance", strf("mutex %d is held %d time(s) but the guards own it %d time(s)", i, actual, holds));
			if(SH ? (m[i].n_lock || m[i].n_unlock) : (m[i].n_lock_shared || m[i].n_unlock_shared)) return fail("wrong-release-call", "the guard used the other kind of acquire/release call");
		}
		for(int i = 0; i < 2; i++) if(mg[i].exists) {
			if(g[i]->is_locked() != mg[i].locked) return fail("is_locked", strf("guard %d: is_locked()=%d, model %d", i, (int)g[i]->is_locked(), (int)mg[i].locked));
			for(int k = 0; k < 2; k++) { bool e = mg[i].locked && mg[i].mtx == k; if(g[i]->protects(&m[k]) != e) return fail("protects", strf("guard %d: protects(mutex %d)=%d, model %d", i, k, (int)g[i]->protects(&m[k]), (int)e)); }
		}
	}
	int extern_hold[2] = {0, 0};

	// returns false if the op is not admissible in the current state
	bool apply(int op) {
		int gi = op % 2; int kind = op / 2;
		auto &G_ = g[gi]; auto &M_ = mg[gi];
		switch(kind) {
		case 0: case 1: { int mi = kind; if(M_.exists || (SH ? m[mi].excl : (m[mi].excl || m[mi].shared))) return false; trace += strf("g%d=G(m%d) ", gi, mi); G_.emplace(m[mi]); M_ = {true, mi, true}; break; }
		case 2: { if(M_.exists) return false; trace += strf("g%d=G(dont_lock,m0) ", gi); G_.emplace(frg::dont_lock, m[0]); M_ = {true, 0, false}; break; }
		case 3: { if(M_.exists || m[1].excl || (!SH && m[1].shared)) return false; trace += strf("g%d=G(adopt_lock,m1) ", gi); if(SH) m[1].lock_shared(); else m[1].lock(); G_.emplace(frg::adopt_lock, m[1]); M_ = {true, 1, true}; break; }
		case 4: { if(M_.exists) return false; trace += strf("g%d=G() ", gi); G_.emplace(); M_ = {true, -1, false}; break; }
		case 5: { if(!M_.exists || M_.locked || M_.mtx < 0) return false; if(SH ? m[M_.mtx].excl : (m[M_.mtx].excl || m[M_.mtx].shared)) return false; trace += strf("g%d.lock() ", gi); G_->lock(); M_.locked = true; break; }
		case 6: { if(!M_.exists || !M_.locked) return false; trace += strf("g%d.unlock() ", gi); G_->unlock(); M_.locked = false; break; }
		case 7: { if(!M_.exists) return false; trace += strf("~g%d ", gi); G_.reset(); M_ = {}; break; }
		case 8: { int o = 1 - gi; if(!M_.exists || mg[o].exists) return false; trace += strf("g%d=G(move(g%d)) ", o, gi); g[o].emplace(std::move(*G_)); mg[o] = M_; M_ = {true, -1, false}; break; }
		case 9: { int o = 1 - gi; if(!M_.exists || !mg[o].exists) return false; trace += strf("g%d=move(g%d) ", o, gi); *g[o] = std::move(*G_); /* o's old hold is released, gi becomes empty */ mg[o] = M_; M_ = {true, -1, false}; break; }
		case 10: { if(gi) return false; if(!mg[0].exists || !mg[1].exists) return false; trace += "swap(g0,g1) "; swap(*g[0], *g[1]); std::swap(mg[0], mg[1]); break; }
		case 11: { // self move-assignment: whether the guard keeps its lock or ends up empty is its business (std::unique_lock releases,
			// a copy-and-swap implementation keeps) - but what it then says about itself must agree with the mutex: the model adopts
			// the guard's own answer and check() compares it with the mutex call log
			if(!M_.exists) return false; trace += strf("g%d=move(g%d) ", gi, gi);
			G &self = *G_; *G_ = std::move(self);
			M_.locked = G_->is_locked(); if(!M_.locked) M_.mtx = -1;
			break; }
		case 12: { if(!M_.exists) return false; trace += strf("swap(g%d,g%d) ", gi, gi); swap(*G_, *G_); break; }
		default: return false;
		}
		return true;
	}
	static constexpr int NOPS = 26;

	void finish() {
		if(bad) return;
		trace += "~all ";
		g[0].reset(); g[1].reset(); mg[0] = {}; mg[1] = {};
		check();
		for(int i = 0; i < 2 && !bad; i++) {
			if(SH ? (m[i].n_lock_shared != m[i].n_unlock_shared) : (m[i].n_lock != m[i].n_unlock)) fail("imbalance", strf("mutex %d: %llu acquire calls but %llu release calls after all guards are gone", i, (unsigned long long)(SH ? m[i].n_lock_shared : m[i].n_lock), (unsigned long long)(SH ? m[i].n_unlock_shared : m[i].n_unlock)));
		}
	}
};

template<typename G>
static void guard_sequences(unsigned len, uint64_t nrand) {
	std::string mode = std::string("guards:") + GuardKind<G>::name;
	if(!want_mode(mode.c_str())) return;
	const int N = GuardWorld<G>::NOPS;
	uint64_t total = 1; for(unsigned i = 0; i < len; i++) total *= N;
	for(uint64_t x = opt.shard; x < total; x += opt.nshards) {
		if(!want_case(x)) continue;
		begin_case(mode.c_str(), x);
		GuardWorld<G> w;
		bool admissible = true; uint64_t y = x;
		guarded("C12", [&] {
			for(unsigned i = 0; i < len && !w.bad; i++) { if(!w.apply(y % N)) { admissible = false; break; } y /= N; w.check(); }
			if(admissible) w.finish();
		});
		if(admissible) { note_distinct(mix(hash_str(mode), x)); count("guard_sequences"); }
	}
	Rng sr(derive_seed(mode.c_str()));
	for(uint64_t i = 0; i < nrand; i++) {
		begin_case((mode + ":rand").c_str(), i);
		Rng r(sr.next());
		GuardWorld<G> w; uint64_t h = 0; unsigned done = 0;
		guarded("C12", [&] {
			for(unsigned k = 0; k < 200 && done < 40 && !w.bad; k++) { int op = r.below(N); if(w.apply(op)) { done++; h = mix(h, op); w.check(); } }
			w.finish();
		});
		note_distinct(mix(hash_str(mode), h)); count("guard_sequences");
	}
	rec.notes[mode] = strf("all admissible operation sequences of length %u over 26 operations (construct locked on m0/m1, dont_lock, adopt_lock, default, lock, unlock, destroy, move-construct, move-assign, swap, self-move-assign, self-swap; two guards, two mutexes)", len);
}

// guards over a one-byte mutex at odd and even addresses (alignment 1, like frg::simple_spinlock behind a byte member): nothing about
// a mutex' address may leak into what a guard believes
struct ByteMutex {
	uint8_t excl = 0, shared = 0;
	static inline uint64_t locks = 0, unlocks = 0, bad = 0;
	void lock() { if(excl || shared) bad++; excl = 1; locks++; }
	void unlock() { if(!excl) bad++; excl = 0; unlocks++; }
	void lock_shared() { if(excl) bad++; shared++; locks++; }
	void unlock_shared() { if(!shared) bad++; else shared--; unlocks++; }
};
template<typename G, bool SH>
static void byte_mutex_battery(const char *gname) {
	struct Packed { uint8_t pad0; ByteMutex a; ByteMutex b; uint8_t pad1; ByteMutex c; } pk{};
	static_assert(alignof(ByteMutex) == 1);
	for(ByteMutex *m : {&pk.a, &pk.b, &pk.c}) {
		ByteMutex::locks = ByteMutex::unlocks = ByteMutex::bad = 0;
		auto held = [&] { return SH ? m->shared : m->excl; };
		auto bad = [&](const char *what) { violation(std::string("C12:guard:") + gname + ":byte-mutex", strf("%s over a 1-byte mutex at address %%2 == %d: %s", gname, (int)((uintptr_t)m & 1), what)); };
		{ G g(*m); if(!g.is_locked() || !g.protects(m) || held() != 1) bad("a locking constructor does not own the mutex"); }
		if(held() != 0) bad("destruction of an owning guard did not release");
		{ G g(frg::dont_lock, *m); if(g.is_locked() || g.protects(m) || held() != 0) bad("a deferred guard claims the lock"); }
		if(ByteMutex::locks != 1 || ByteMutex::unlocks != 1) bad("destruction of a deferred guard called the mutex");
		{ G g(frg::dont_lock, *m); g.lock(); if(!g.is_locked() || held() != 1) bad("lock() on a deferred guard"); g.unlock(); if(g.is_locked() || held() != 0) bad("unlock()"); g.lock(); }
		if(held() != 0) bad("destruction after re-lock did not release");
		{ if(SH) m->lock_shared(); else m->lock(); G g(frg::adopt_lock, *m); if(!g.is_locked() || !g.protects(m)) bad("an adopting guard does not own the mutex"); G h(std::move(g)); if(g.is_locked() || !h.is_locked() || !h.protects(m)) bad("move construction"); G k(frg::dont_lock, pk.b); swap(h, k); if(!k.is_locked() || !k.protects(m) || h.is_locked()) bad("swap"); }
		if(held() != 0 || ByteMutex::bad) bad("unbalanced acquire/release calls");
		if constexpr (!SH) { { auto g = frg::guard(m); if(!g.is_locked() || held() != 1) bad("frg::guard(&m)"); } if(held() != 0) bad("frg::guard(&m) destruction"); }
		count("byte_mutex_guard_batteries");
	}
}

// a mutex whose acquisition can fail by throwing (a deadline / would-block mutex; std::mutex::lock may throw too): after a failed
// lock() the guard must not claim the mutex, and neither unlock() nor its destructor may release what was never acquired
struct FailingMutex {
	int excl = 0, shared = 0; bool fail_next = false; uint64_t unlocks = 0;
	struct Refused {};
	void lock() { if(fail_next) { fail_next = false; throw Refused{}; } excl++; }
	void unlock() { unlocks++; excl--; }
	void lock_shared() { if(fail_next) { fail_next = false; throw Refused{}; } shared++; }
	void unlock_shared() { unlocks++; shared--; }
};
template<typename G, bool SH>
static void failing_lock_battery(const char *gname) {
	auto bad = [&](const char *what) { violation(std::string("C12:guard:") + gname + ":failed-lock", strf("%s over a mutex whose lock() failed: %s", gname, what)); };
	FailingMutex m;
	{ G g(frg::dont_lock, m); m.fail_next = true; try { g.lock(); bad("lock() returned although the mutex refused"); } catch(const FailingMutex::Refused &) {}
	  if(g.is_locked() || g.protects(&m)) bad("the guard says it owns the mutex after its lock() failed"); }
	if(m.unlocks || m.excl || m.shared) bad("a guard released a mutex it never acquired (destruction after a failed lock())");
	{ G g(m); g.unlock(); m.fail_next = true; try { g.lock(); } catch(const FailingMutex::Refused &) {} if(g.is_locked()) bad("re-lock failed but the guard claims ownership"); g.lock(); if(!g.is_locked()) bad("second attempt"); }
	if((SH ? m.shared : m.excl) != 0 || m.unlocks != 2) bad("unbalanced calls after a failed re-lock that was retried");
	count("failing_lock_batteries");
}

// the QS lock_guard is neither copyable nor movable on the tree as found; should it ever become movable, a move has to transfer
// ownership like that of unique_lock (one lock(), one unlock() in total). (A template: the branch must not be compiled otherwise.)
template<typename G, typename M>
static void movable_guard_probe() {
	if constexpr (std::is_move_constructible_v<G>) {
		M q;
		{ G a(q); G b(std::move(a)); if(q.excl != 1) violation("C12:guard:qs-lock_guard:move", "after moving a held QS lock_guard the mutex is not held exactly once"); }
		if(q.excl != 0 || q.n_lock != q.n_unlock || q.bad) violation("C12:guard:qs-lock_guard:move", strf("a moved QS lock_guard: %llu lock() and %llu unlock() calls (%s)", (unsigned long long)q.n_lock, (unsigned long long)q.n_unlock, q.why.c_str()));
		count("qs_lock_guard_is_movable");
	} else count("qs_lock_guard_is_not_movable");
}

// frg::guard() helpers and the QS lock_guard
static void guard_helpers() {
	if(!want_mode("guards:helpers")) return;
	begin_case("guards:helpers", 0);
	guarded("C12", [] { byte_mutex_battery<frg::unique_lock<ByteMutex>, false>("unique_lock"); byte_mutex_battery<frg::shared_lock<ByteMutex>, true>("shared_lock"); });
	guarded("C12", [] { failing_lock_battery<frg::unique_lock<FailingMutex>, false>("unique_lock"); failing_lock_battery<frg::shared_lock<FailingMutex>, true>("shared_lock"); });
	guarded("C12", [] {
		LogMutex m;
		{ auto g = frg::guard(&m); if(!g.is_locked() || m.excl != 1) violation("C12:guard:guard():not-locked", "frg::guard(&m) does not hold the mutex"); }
		if(m.excl != 0 || m.n_lock != 1 || m.n_unlock != 1) violation("C12:guard:guard():imbalance", "frg::guard(&m) did not release exactly once");
		{ auto g = frg::guard(frg::dont_lock, &m); if(g.is_locked() || m.excl) violation("C12:guard:guard():dont_lock", "frg::guard(dont_lock) locked"); g.lock(); g.unlock(); g.lock(); }
		if(m.excl != 0 || m.n_lock != 3 || m.n_unlock != 3 || m.bad) violation("C12:guard:guard():imbalance", "frg::guard(dont_lock,&m) lock/unlock/lock/~ is unbalanced");
		// QS lock_guard: every sequence over {lock, unlock} that respects its preconditions, then destruction
		for(unsigned x = 0; x < 64; x++) {
			LogMutex q; bool held;
			{ frg::lock_guard<LogMutex> lg(q); held = true; unsigned y = x; for(int i = 0; i < 6; i++, y >>= 1) { if(held) { lg.unlock(); held = false; } else if(y & 1) { lg.lock(); held = true; }
				if(q.excl != (held ? 1 : 0) || q.bad) { violation("C12:guard:qs-lock_guard:imbalance", strf("qs lock_guard: mutex held %d time(s) while the guard %s it (%s)", q.excl, held ? "owns" : "does not own", q.why.c_str())); break; } } }
			if(q.excl != 0 || q.n_lock != q.n_unlock || q.bad) { violation("C12:guard:qs-lock_guard:imbalance", strf("qs lock_guard: %llu lock() and %llu unlock() calls, mutex %s after destruction (%s)", (unsigned long long)q.n_lock, (unsigned long long)q.n_unlock, q.excl ? "still held" : "free", q.why.c_str())); break; }
			count("qs_lock_guard_sequences");
		}
	});
	guarded("C12", [] { movable_guard_probe<frg::lock_guard<LogMutex>, LogMutex>(); });
	// the guards over the library's own lock types, also over a ticket lock that has been in use for a long time (its counters about to
	// wrap at 2^31 / 2^32; the QS domain keeps its mutex in a frg::lock_guard): 40 guarded sections each; a guard that does not
	// release hangs the next section (watchdog), one that stops at an assertion is reported by guarded()
	guarded("C12", [] {
		for(uint32_t first : {0u, 0x7FFFFFF0u, 0xFFFFFFF0u}) {
			frg::ticket_spinlock t1(first), t2(first), t3(first);
			frg::simple_spinlock s1, s2, s3;
			int plain = 0;
			for(int i = 0; i < 40; i++) {
				{ frg::lock_guard<frg::ticket_spinlock> g(t1); plain++; if(i % 3 == 0) { g.unlock(); g.lock(); } }
				{ frg::unique_lock<frg::ticket_spinlock> g(t2); plain++; if(i % 3 == 1) { g.unlock(); g.lock(); } if(i % 5 == 0) { auto h = std::move(g); } }
				{ auto g = frg::guard(&t3); plain++; }
				{ frg::lock_guard<frg::simple_spinlock> g(s1); plain++; if(i % 3 == 0) { g.unlock(); g.lock(); } if(!s1.is_locked()) violation("C12:guard:real-locks:not-held", "qs lock_guard over a simple_spinlock does not hold it"); }
				{ frg::unique_lock<frg::simple_spinlock> g(s2); plain++; }
				{ auto g = frg::guard(&s3); plain++; }
				if(s1.is_locked() || s2.is_locked() || s3.is_locked()) { violation("C12:guard:real-locks:not-released", "a guard over a simple_spinlock left it locked"); break; }
			}
			// every lock is free again: a direct lock()/unlock() pair goes through
			t1.lock(); t1.unlock(); t2.lock(); t2.unlock(); t3.lock(); t3.unlock();
			count("guarded_sections_over_real_spinlocks", (uint64_t)plain);
		}
	});
	note_distinct(hash_str("guards:helpers"));
}

// ------------------------------------------------------------------ (b) spinlocks under the controlled scheduler
template<typename L> struct LockName;
template<> struct LockName<frg::ticket_spinlock> { static constexpr const char *name = "ticket_spinlock"; static constexpr bool ticket = true; };
template<> struct LockName<frg::simple_spinlock> { static constexpr const char *name = "simple_spinlock"; static constexpr bool ticket = false; };

struct SpinMonitor {
	int in_cs = 0; bool bad = false; std::string why;
	std::vector<unsigned long> took, acquired;     // ticket values in the order tickets were taken / the lock was acquired
	uint64_t entries = 0;
	uint64_t released_at = 0; bool waiting_handover = false; // hand-over: a release with waiters must be followed by an acquisition
	void fail(const std::string &k, const std::string &w) { if(!bad) { bad = true; why = k + "|" + w; } }
};

// `first_ticket`: the ticket lock's counters start there (verification-only constructor), so that scenarios can run across the
// 2^32 wrap-around of the counters; is_locked() is not consulted in those scenarios (the property does not speak about it).
template<typename L> static L *make_lock(uint32_t first_ticket) { if constexpr (LockName<L>::ticket) return new L(first_ticket); else { (void)first_ticket; return new L(); } }

template<typename L>
static void run_spin_scenario(const char *mode, long long idx, int nthreads, int pairs, sched::Strategy &strat, uint64_t step_limit, bool with_is_locked, uint32_t first_ticket = 0) {
	begin_case(mode, idx);
	if(first_ticket) with_is_locked = false;
	L *lock = make_lock<L>(first_ticket);
	SpinMonitor mon;
	sched::World w; w.step_limit = step_limit; w.keep_trace = true;
	w.on_point = [&](int me, const char *site, const void *obj, unsigned long v) {
		(void)me;
		if(obj != lock) return;
		if(!strcmp(site, "ticket.lock.took_ticket")) mon.took.push_back(v);
		if(!strcmp(site, "ticket.lock.acquired")) {
			// grants must come in ticket order: first, first+1, ... (mod 2^32); checked online, because what a lock does after
			// granting out of order (a waiter that is never served, an unbounded back-off) need not terminate
			if((uint32_t)v != (uint32_t)(first_ticket + mon.acquired.size())) mon.fail("ticket-order", strf("ticket 0x%lx was granted the lock although ticket 0x%x is next", v, (uint32_t)(first_ticket + mon.acquired.size())));
			mon.acquired.push_back(v);
		}
	};
	std::vector<std::function<void()>> bodies;
	for(int t = 0; t < nthreads; t++) bodies.push_back([&, t] {
		for(int p = 0; p < pairs; p++) {
			lock->lock();
			if(mon.bad) w.abort_run(sched::Outcome::Panic, "ticket order violated");
			// critical section (plain state; a second worker inside is a mutual-exclusion violation)
			if(mon.in_cs != 0) {
				mon.fail("mutual-exclusion", strf("worker %d entered the critical section while another worker is inside", t));
				w.abort_run(sched::Outcome::Panic, "mutual exclusion violated"); // stop here: what a broken lock does afterwards (lost hand-over, unbounded back-off) is aftermath
			}
			mon.in_cs++; mon.entries++;
			if(with_is_locked && !lock->is_locked()) mon.fail("is_locked", "is_locked() is false while the lock is held");
			sched::yield_point("cs.inside", t);
			mon.in_cs--;
			lock->unlock();
			sched::yield_point("after.unlock", t);
		}
	});
	sched::Outcome out = w.run(bodies, strat);
	count("spin_schedules");
	note_distinct(mix(hash_str(mode), w.sig));
	rec.counters["sched_points"] += w.steps; rec.counters["sched_switches"] += w.switches;
	{ static uint64_t max_steps = 0; if(out.kind == sched::Outcome::Ok && w.steps > max_steps) { max_steps = w.steps; rec.notes[std::string("max_points_in_a_completing_schedule:shard") + std::to_string(opt.shard)] = std::to_string(max_steps) + " (budget " + std::to_string(w.step_limit) + ")"; } }
	std::string tail; for(size_t i = w.trace.size() > 40 ? w.trace.size() - 40 : 0; i < w.trace.size(); i++) tail += w.trace[i] + " ";
	if(idx == 1) sample(std::string(mode) + strf(" schedule #1 (%d threads x %d pairs) observed points: ", nthreads, pairs) + tail.substr(0, 900), 40);
	auto report = [&](const std::string &key, const std::string &what) { case_detail("%s threads=%d pairs=%d trace: %s", LockName<L>::name, nthreads, pairs, tail.c_str()); violation(std::string("C12:sched:") + LockName<L>::name + ":" + key, what); };
	if(mon.bad) { auto p = mon.why.find('|'); report(mon.why.substr(0, p), mon.why.substr(p + 1)); }
	else if(out.kind == sched::Outcome::Deadlock || out.kind == sched::Outcome::Livelock) report(out.kind == sched::Outcome::Deadlock ? "deadlock" : "no-hand-over", std::string(LockName<L>::name) + ": the lock is never acquired again although its holder released it / nobody holds it: " + out.detail);
	else if(out.kind == sched::Outcome::StepLimit) report("no-progress-step-budget", "a schedule did not finish within the step budget (far above any completing run): " + out.detail);
	else if(out.kind == sched::Outcome::Panic) report("assert", "library assertion: " + out.detail);
	else {
		if(mon.entries != (uint64_t)nthreads * pairs) report("lost-entry", "not every lock() returned");
		if(LockName<L>::ticket) {
			// the lock must be granted in ticket order
			if(mon.took.size() != mon.acquired.size()) report("ticket-order", "number of tickets taken and grants differ");
			else { // order = distance from the first ticket modulo 2^32
				auto dist = [&](unsigned long v) { return (uint32_t)((uint32_t)v - first_ticket); };
				std::vector<unsigned long> sorted = mon.took; std::sort(sorted.begin(), sorted.end(), [&](unsigned long a, unsigned long b) { return dist(a) < dist(b); });
				if(mon.acquired != sorted) report("ticket-order", "the ticket lock was not granted in ticket order");
			}
		}
		if(with_is_locked && lock->is_locked()) report("is_locked", "is_locked() is true after every holder released the lock");
	}
	if(out.kind == sched::Outcome::Ok) delete lock; // (an aborted world may still reference the lock)
}

template<typename L>
static void spin_dfs(const char *tag, int nthreads, int pairs, int bound, uint64_t max_runs, uint32_t first_ticket = 0) {
	std::string mode = std::string("dfs:") + LockName<L>::name + ":" + tag;
	static unsigned dfs_mode_index = 0;
	if(!want_mode(mode.c_str()) || (opt.mode.empty() && (dfs_mode_index++ % opt.nshards) != opt.shard)) return;
	sched::Dfs dfs(bound);
	long long i = 0;
	bool complete = false;
	do {
		run_spin_scenario<L>(mode.c_str(), i, nthreads, pairs, dfs, 5000, true, first_ticket);
		i++;
		if(!rec.violations.empty()) break;
		if(!dfs.advance()) { complete = true; break; }
	} while((uint64_t)i < max_runs);
	rec.notes[mode] = strf("%s: %d threads x %d lock/unlock pairs, first ticket 0x%x, preemption bound %d: %lld schedules, %s", LockName<L>::name, nthreads, pairs, first_ticket, bound, i, complete ? "space exhausted" : "CUT SHORT");
	count(complete ? "dfs_spaces_exhausted" : "dfs_spaces_cut_short");
}

template<typename L>
static void spin_random(uint64_t n) {
	std::string mode = std::string("pct:") + LockName<L>::name;
	if(!want_mode(mode.c_str())) return;
	Rng sr(derive_seed(mode.c_str()));
	for(uint64_t i = 0; i < n; i++) {
		uint64_t cs = sr.next();
		if(!want_case(i)) continue;
		Rng r(cs);
		int nt = 2 + r.below(3), pairs = 1 + r.below(4);
		// half of the ticket-lock runs start a few tickets below the 2^32 (or the signed 2^31) wrap-around, so the run crosses it
		uint32_t first = 0;
		if(LockName<L>::ticket && r.chance(1, 2)) { first = (r.chance(1, 4) ? 0x80000000u : 0u) - 1 - (uint32_t)r.below(nt * pairs); count("spin_schedules_across_ticket_wrap"); }
		if(r.chance(1, 2)) { sched::Pct s(cs, 1 + r.below(3), 40 * nt * pairs); run_spin_scenario<L>(mode.c_str(), i, nt, pairs, s, 200000, true, first); }
		else { sched::RandomWalk s(cs, 1, 2 + r.below(4)); run_spin_scenario<L>(mode.c_str(), i, nt, pairs, s, 200000, true, first); }
	}
}

// ---- locks with static storage duration that are taken while other namespace-scope objects are still being constructed
// (a kernel's global locks): both spinlocks have constexpr constructors, so they are constant-initialised and a lock taken by the
// constructor of an *earlier* global is still held when main() starts.
extern frg::ticket_spinlock g_early_ticket, g_early_ticket_free;
extern frg::simple_spinlock g_early_simple, g_early_simple_free;
static struct EarlyLocker { EarlyLocker() { g_early_ticket.lock(); g_early_simple.lock(); g_early_ticket_free.lock(); g_early_ticket_free.unlock(); g_early_simple_free.lock(); g_early_simple_free.unlock(); } } g_early_locker;
frg::ticket_spinlock g_early_ticket, g_early_ticket_free;
frg::simple_spinlock g_early_simple, g_early_simple_free;
static void static_init_case() {
	begin_case("static-init", 0);
	if(!g_early_ticket.is_locked()) violation("C12:static-init:ticket_spinlock", "a namespace-scope ticket_spinlock locked by the constructor of an earlier global is not locked when main() starts");
	else { g_early_ticket.unlock(); if(g_early_ticket.is_locked()) violation("C12:static-init:ticket_spinlock", "unlock() of a lock taken during static initialisation does not release it"); g_early_ticket.lock(); g_early_ticket.unlock(); }
	if(!g_early_simple.is_locked()) violation("C12:static-init:simple_spinlock", "a namespace-scope simple_spinlock locked by the constructor of an earlier global is not locked when main() starts");
	else { g_early_simple.unlock(); if(g_early_simple.is_locked()) violation("C12:static-init:simple_spinlock", "unlock() of a lock taken during static initialisation does not release it"); g_early_simple.lock(); g_early_simple.unlock(); }
	if(g_early_ticket_free.is_locked() || g_early_simple_free.is_locked()) violation("C12:static-init:released", "a lock taken and released during static initialisation is held when main() starts");
	g_early_ticket_free.lock(); g_early_ticket_free.unlock(); // (a ticket counter reset behind a served ticket would hang here: watchdog)
	count("spinlocks_used_during_static_initialisation", 4);
	note_distinct(mix(0xE1, 1));
}

int main(int argc, char **argv) {
	parse_args(argc, argv, "c12_locks");
	rec.rule = "guards: a case is one admissible operation sequence over two guards and two instrumented mutexes (model of ownership vs. the mutex call log after every operation); "
		"spinlocks: a case is one schedule of 2-4 workers doing lock/unlock pairs, context switches only at the library's atomic accesses; distinct = schedule signature (sequence of running workers at scheduling points)";
	bool t = opt.thorough();
	sched::g_lock_prop = "C12";
	guard_sequences<frg::unique_lock<LogMutex>>(t ? 5 : 4, scaled(2000, 50000));
	guard_sequences<frg::shared_lock<LogMutex>>(t ? 5 : 4, scaled(2000, 50000));
	guard_helpers();
	if(want_mode("static-init") && want_case(0)) static_init_case();
	spin_dfs<frg::ticket_spinlock>("2x2", 2, 2, t ? 4 : 3, t ? 400000 : 60000);
	spin_dfs<frg::ticket_spinlock>("3x1", 3, 1, 2, t ? 400000 : 60000);
	spin_dfs<frg::ticket_spinlock>("2x2@wrap", 2, 2, t ? 4 : 3, t ? 400000 : 60000, 0xFFFFFFFEu); // tickets 0xFFFFFFFE, 0xFFFFFFFF, 0, 1
	spin_dfs<frg::ticket_spinlock>("3x1@wrap", 3, 1, 2, t ? 400000 : 60000, 0xFFFFFFFFu);
	spin_dfs<frg::simple_spinlock>("2x2", 2, 2, t ? 4 : 3, t ? 400000 : 60000);
	spin_dfs<frg::simple_spinlock>("3x1", 3, 1, 2, t ? 400000 : 60000);
	spin_random<frg::ticket_spinlock>(scaled(300, 10000));
	spin_random<frg::simple_spinlock>(scaled(300, 10000));
	sample("guards:unique_lock x=77123: g0=G(m0) g1=G(move(g0)) swap(g0,g1) g0.unlock() ~all  (model vs lock()/unlock() call log after each step)");
	sample("dfs:ticket_spinlock:2x2: every schedule with <= 2 preemptions of two workers doing two lock/unlock pairs; switches only at fetch_add / wait-loop / unlock load / unlock store");
	return finish();
}
