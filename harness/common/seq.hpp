// Generic bounded-exhaustive + random operation-sequence runner over an "adapter":
//   struct A { static constexpr const char *base; static constexpr int NOPS;
//              struct State { State(AllocState &); ... };
//              static void compare(SeqCtx &, State &); static void apply(SeqCtx &, State &, int op, uint64_t param); };
// After every case the State is destroyed and both registries (elements, blocks) must be empty.
#pragma once
#include "verif.hpp"
#include "track.hpp"
#include <memory>

namespace verif {

inline std::string g_seq_prop = "C00";      // property the model oracle belongs to
inline bool g_seq_model_armed = true;

struct SeqCtx {
	std::string type, base, trace;
	bool bad = false;
	void op(const std::string &s) { if(trace.size() < 1200) { if(!trace.empty()) trace += ' '; trace += s; } }
	void fail(const std::string &kind, const std::string &msg) {
		if(bad) return;
		bad = true;
		count("model_mismatches_flagged");
		if(g_seq_model_armed) violation(g_seq_prop + ":model:" + base + ":" + kind, type + " after [" + trace + "]: " + msg);
		else count("unarmed:model:" + base + ":" + kind);
	}
};

template<typename A>
void seq_run_one(const std::string &tname, const char *mode, long long idx, const std::vector<std::pair<int, uint64_t>> &ops, const std::string &active_prop) {
	begin_case(mode, idx);
	SeqCtx c; c.type = tname; c.base = A::base;
	g_elems.owner = A::base;
	AllocState as; as.owner = A::base;
	{
		std::unique_ptr<typename A::State> sp(new typename A::State(as));
		auto &s = *sp;
		guarded(active_prop.c_str(), [&] {
			A::compare(c, s);
			for(auto &o : ops) {
				if(c.bad) break;
				A::apply(c, s, o.first, o.second);
				if(c.bad) break;
				A::compare(c, s);
			}
		});
		if(c.bad || rec.evaluations % 64 == 1) case_detail("%s", c.trace.c_str());
		try { sp.reset(); } catch(const PanicStop &p) { violation(active_prop + ":assert:in-destructor:" + A::base, std::string("assertion during destruction: ") + p.msg); }
	}
	expect_no_elems(("after destroying the " + tname + " (ops: " + c.trace + ")").c_str());
	expect_no_blocks(as, ("after destroying the " + tname + " (ops: " + c.trace + ")").c_str());
	if(idx == (long long)opt.shard) sample(tname + ": " + c.trace.substr(0, 400), 60);
}

template<typename A>
void seq_run_type(const std::string &tname, unsigned exh_len, uint64_t nrand, unsigned randlen, const std::string &active_prop) {
	std::string mexh = "exh:" + tname, mrnd = "rand:" + tname;
	if(want_mode(mexh.c_str()) && exh_len) {
		uint64_t total = 1;
		for(unsigned i = 0; i < exh_len; i++) total *= A::NOPS;
		for(uint64_t x = opt.shard; x < total; x += opt.nshards) {
			if(!want_case((long long)x)) continue;
			std::vector<std::pair<int, uint64_t>> ops;
			uint64_t y = x;
			for(unsigned i = 0; i < exh_len; i++) { ops.push_back({(int)(y % A::NOPS), (uint64_t)(i * 3 + 1)}); y /= A::NOPS; }
			seq_run_one<A>(tname, mexh.c_str(), (long long)x, ops, active_prop);
			note_distinct(mix(hash_str(mexh), x));
			count("exhaustive_sequences");
		}
		rec.notes["exhaustive:" + tname] = strf("all %llu op sequences of length %u over %d ops (split over %u shards)", (unsigned long long)total, exh_len, A::NOPS, opt.nshards);
	}
	if(want_mode(mrnd.c_str())) {
		Rng sr(derive_seed(mrnd.c_str()));
		for(uint64_t i = 0; i < nrand; i++) {
			uint64_t cs = sr.next();
			if(!want_case((long long)i)) continue;
			Rng r(cs);
			unsigned len = 1 + r.below(randlen);
			std::vector<std::pair<int, uint64_t>> ops;
			uint64_t h = hash_str(mrnd);
			for(unsigned k = 0; k < len; k++) {
				int op = r.below(A::NOPS);
				ops.push_back({op, r.next()});
				h = mix(h, op); h = mix(h, ops.back().second % 64);
			}
			seq_run_one<A>(tname, mrnd.c_str(), (long long)i, ops, active_prop);
			if(len >= 3) note_distinct(h);
			count("random_sequences");
		}
	}
}

} // namespace verif
