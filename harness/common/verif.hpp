// Shared monitor runtime for all frigg verification drivers.
// - PanicStop: frg_panic() throws, so "library stopped through its assertion hook" is observable.
// - Verdict/evidence recorder: cases, distinct hashes, samples, violations -> result JSON.
// - Crash path: sanitizer death callback / fatal signal writes the current case to the result file.
#pragma once
#include <new>
#include <cstdint>
#include <cstdio>
#include <cstdlib>
#include <cstring>
#include <cstdarg>
#include <string>
#include <vector>
#include <map>
#include <set>
#include <unordered_set>
#include <functional>
#include <exception>
#include <atomic>
#include <signal.h>
#include <unistd.h>
#include <fcntl.h>
#include <time.h>
#include <sys/wait.h>
#include <pthread.h>

#if defined(__has_feature)
#if __has_feature(address_sanitizer) && !defined(__SANITIZE_ADDRESS__)
#define __SANITIZE_ADDRESS__ 1
#endif
#if __has_feature(thread_sanitizer) && !defined(__SANITIZE_THREAD__)
#define __SANITIZE_THREAD__ 1
#endif
#endif
#if defined(__SANITIZE_ADDRESS__)
#define VERIF_ASAN 1
#include <sanitizer/asan_interface.h>
#include <sanitizer/common_interface_defs.h>
#elif defined(__SANITIZE_THREAD__)
#define VERIF_TSAN 1
#include <sanitizer/common_interface_defs.h>
#endif

namespace verif {

// ---------------------------------------------------------------- PanicStop
struct PanicStop {
	char msg[256];
};

inline thread_local int g_panic_count = 0;
inline bool g_panic_exits = false; // free-running multi-threaded engines: log + _exit

// ---------------------------------------------------------------- PRNG (splitmix64 / xoshiro256**)
struct Rng {
	uint64_t s[4];
	static uint64_t splitmix(uint64_t &x) {
		uint64_t z = (x += 0x9e3779b97f4a7c15ull);
		z = (z ^ (z >> 30)) * 0xbf58476d1ce4e5b9ull;
		z = (z ^ (z >> 27)) * 0x94d049bb133111ebull;
		return z ^ (z >> 31);
	}
	explicit Rng(uint64_t seed = 1) { reseed(seed); }
	void reseed(uint64_t seed) { for(auto &w : s) w = splitmix(seed); }
	static uint64_t rotl(uint64_t x, int k) { return (x << k) | (x >> (64 - k)); }
	uint64_t next() {
		uint64_t r = rotl(s[1] * 5, 7) * 9, t = s[1] << 17;
		s[2] ^= s[0]; s[3] ^= s[1]; s[1] ^= s[2]; s[0] ^= s[3]; s[2] ^= t; s[3] = rotl(s[3], 45);
		return r;
	}
	uint64_t below(uint64_t n) { return n ? next() % n : 0; }
	uint64_t range(uint64_t lo, uint64_t hi) { return lo + below(hi - lo + 1); } // inclusive
	bool chance(unsigned num, unsigned den) { return below(den) < num; }
	template<typename T> const T &pick(const std::vector<T> &v) { return v[below(v.size())]; }
};

inline uint64_t mix(uint64_t h, uint64_t v) {
	h ^= v + 0x9e3779b97f4a7c15ull + (h << 6) + (h >> 2);
	h *= 0xff51afd7ed558ccdull;
	return h ^ (h >> 32);
}
inline uint64_t hash_bytes(const void *p, size_t n, uint64_t h = 0xcbf29ce484222325ull) {
	auto *b = (const unsigned char *)p;
	for(size_t i = 0; i < n; i++) { h ^= b[i]; h *= 0x100000001b3ull; }
	return h;
}
inline uint64_t hash_str(const std::string &s) { return hash_bytes(s.data(), s.size()); }

// ---------------------------------------------------------------- options
struct Options {
	std::string tier = "quick";
	uint64_t seed = 1;
	unsigned shard = 0, nshards = 1;
	std::string out;      // result json
	std::string hashes;   // binary file of distinct hashes (optional)
	std::string mode;     // restrict to one mode (replay)
	long long only_case = -1; // replay exactly this case index
	std::string replay_arg;   // free-form extra (literal input etc.)
	double scale = 1.0;
	bool thorough() const { return tier == "thorough"; }
};
inline Options opt;

// ---------------------------------------------------------------- recorder
struct Violation { std::string key, what, mode; long long caseno; std::string detail; };

struct Recorder {
	std::string driver;
	uint64_t evaluations = 0;
	std::unordered_set<uint64_t> distinct;
	std::vector<std::string> samples;
	std::map<std::string, uint64_t> counters;
	std::map<std::string, std::string> notes;
	std::vector<Violation> violations;
	std::set<std::string> seen_keys;
	bool exhaustive = false;
	std::string rule;
	// current case (for crash reports)
	char cur_mode[64] = "init";
	volatile long long cur_case = -1;
	char cur_detail[4096] = "";
	timespec t0;
	int max_violations = 40;
	size_t max_distinct = 4000000;
};
inline Recorder rec;
inline std::atomic<uint64_t> g_wd_evaluations{0};
inline void write_result(bool crashed, const char *crash_kind);
inline uint64_t g_cases_after_violation = 0;

inline void begin_case(const char *mode, long long idx) {
	if(strcmp(rec.cur_mode, mode)) { strncpy(rec.cur_mode, mode, sizeof(rec.cur_mode) - 1); rec.cur_mode[sizeof(rec.cur_mode)-1] = 0; }
	rec.cur_case = idx;
	rec.cur_detail[0] = 0;
	rec.evaluations++;
	g_wd_evaluations.store(rec.evaluations, std::memory_order_relaxed);
	// once something has been flagged, later cases run on possibly corrupted state: bound the aftermath
	if(!rec.violations.empty() && ++g_cases_after_violation > 5000) {
		rec.counters["stopped_early_after_violation"] = 1;
		write_result(false, "");
		fflush(stderr);
		_exit(1);
	}
}
// literal description of the current case (cheap: only formatted by callers when needed)
inline void case_detail(const char *fmt, ...) __attribute__((format(printf, 1, 2)));
inline void case_detail(const char *fmt, ...) {
	va_list ap; va_start(ap, fmt);
	vsnprintf(rec.cur_detail, sizeof(rec.cur_detail), fmt, ap);
	va_end(ap);
}
inline void case_detail_append(const char *fmt, ...) __attribute__((format(printf, 1, 2)));
inline void case_detail_append(const char *fmt, ...) {
	size_t n = strlen(rec.cur_detail);
	if(n + 8 >= sizeof(rec.cur_detail)) return;
	va_list ap; va_start(ap, fmt);
	vsnprintf(rec.cur_detail + n, sizeof(rec.cur_detail) - n, fmt, ap);
	va_end(ap);
}
inline void note_distinct(uint64_t h) { if(rec.distinct.size() < rec.max_distinct) rec.distinct.insert(h); }
inline void count(const std::string &name, uint64_t n = 1) { rec.counters[name] += n; }
inline void sample(const std::string &s, size_t cap = 12) { if(rec.samples.size() < cap) rec.samples.push_back(s); }
inline bool want_case(long long idx) { return opt.only_case < 0 || opt.only_case == idx; }
inline bool want_mode(const char *m) { return opt.mode.empty() || opt.mode == m; }

inline std::string strf(const char *fmt, ...) __attribute__((format(printf, 1, 2)));
inline std::string strf(const char *fmt, ...) {
	char buf[2048];
	va_list ap; va_start(ap, fmt);
	vsnprintf(buf, sizeof buf, fmt, ap);
	va_end(ap);
	return buf;
}

inline void violation(const std::string &key, const std::string &what) {
	if(rec.seen_keys.count(key) && rec.violations.size() >= 1) {
		count("violations_suppressed_duplicates");
		rec.counters["dup:" + key]++;
		return;
	}
	rec.seen_keys.insert(key);
	if((int)rec.violations.size() >= rec.max_violations) return;
	rec.violations.push_back({key, what, rec.cur_mode, rec.cur_case, rec.cur_detail});
	fprintf(stderr, "[verif] violation key=%s mode=%s case=%lld :: %s\n", key.c_str(), rec.cur_mode, (long long)rec.cur_case, what.c_str());
}

inline std::string json_escape(const std::string &s) {
	std::string o;
	for(unsigned char c : s) {
		if(c == '"') o += "\\\""; else if(c == '\\') o += "\\\\";
		else if(c == '\n') o += "\\n"; else if(c == '\t') o += "\\t"; else if(c == '\r') o += "\\r";
		else if(c < 0x20 || c >= 0x7f) { char b[8]; snprintf(b, sizeof b, "\\u%04x", c); o += b; }
		else o += (char)c;
	}
	return o;
}

inline double elapsed() {
	timespec t; clock_gettime(CLOCK_MONOTONIC, &t);
	return (t.tv_sec - rec.t0.tv_sec) + (t.tv_nsec - rec.t0.tv_nsec) * 1e-9;
}

inline void write_result(bool crashed, const char *crash_kind) {
	if(opt.out.empty()) return;
	std::string o = "{";
	o += "\"driver\":\"" + json_escape(rec.driver) + "\"";
	o += ",\"tier\":\"" + opt.tier + "\",\"seed\":" + std::to_string(opt.seed);
	o += ",\"shard\":" + std::to_string(opt.shard) + ",\"nshards\":" + std::to_string(opt.nshards);
	o += ",\"evaluations\":" + std::to_string(rec.evaluations);
	o += ",\"distinct\":" + std::to_string(rec.distinct.size());
	o += std::string(",\"exhaustive\":") + (rec.exhaustive ? "true" : "false");
	o += ",\"rule\":\"" + json_escape(rec.rule) + "\"";
	o += ",\"wall_s\":" + strf("%.3f", elapsed());
	o += std::string(",\"crashed\":") + (crashed ? "true" : "false");
	if(crashed) {
		o += ",\"crash_kind\":\"" + json_escape(crash_kind) + "\"";
	}
	o += ",\"cur_mode\":\"" + json_escape(rec.cur_mode) + "\",\"cur_case\":" + std::to_string((long long)rec.cur_case);
	o += ",\"cur_detail\":\"" + json_escape(rec.cur_detail) + "\"";
	o += ",\"samples\":[";
	for(size_t i = 0; i < rec.samples.size(); i++) o += (i ? ",\"" : "\"") + json_escape(rec.samples[i]) + "\"";
	o += "],\"counters\":{";
	bool first = true;
	for(auto &kv : rec.counters) { o += (first ? "\"" : ",\"") + json_escape(kv.first) + "\":" + std::to_string(kv.second); first = false; }
	o += "},\"notes\":{";
	first = true;
	for(auto &kv : rec.notes) { o += (first ? "\"" : ",\"") + json_escape(kv.first) + "\":\"" + json_escape(kv.second) + "\""; first = false; }
	o += "},\"violations\":[";
	for(size_t i = 0; i < rec.violations.size(); i++) {
		auto &v = rec.violations[i];
		o += (i ? ",{" : "{");
		o += "\"key\":\"" + json_escape(v.key) + "\",\"what\":\"" + json_escape(v.what) + "\",\"mode\":\"" + json_escape(v.mode)
			+ "\",\"case\":" + std::to_string(v.caseno) + ",\"detail\":\"" + json_escape(v.detail) + "\"}";
	}
	o += "]}\n";
	int fd = open(opt.out.c_str(), O_WRONLY | O_CREAT | O_TRUNC, 0644);
	if(fd >= 0) { size_t off = 0; while(off < o.size()) { ssize_t r = write(fd, o.data() + off, o.size() - off); if(r <= 0) break; off += r; } close(fd); }
	if(!opt.hashes.empty() && !crashed) {
		FILE *f = fopen(opt.hashes.c_str(), "wb");
		if(f) { for(uint64_t h : rec.distinct) fwrite(&h, 8, 1, f); fclose(f); }
	}
}

// minimal async-signal-tolerant crash record (no allocation)
inline char g_crash_path[512];
inline void write_crash_minimal(const char *kind) {
	if(!g_crash_path[0]) return;
	char buf[6000];
	// escape cur_detail minimally
	char det[4200]; size_t j = 0;
	for(size_t i = 0; rec.cur_detail[i] && j + 8 < sizeof det; i++) {
		unsigned char c = rec.cur_detail[i];
		if(c == '"' || c == '\\') { det[j++] = '\\'; det[j++] = c; }
		else if(c < 0x20 || c >= 0x7f) { j += snprintf(det + j, 8, "\\u%04x", c); }
		else det[j++] = c;
	}
	det[j] = 0;
	int n = snprintf(buf, sizeof buf,
		"{\"driver\":\"%s\",\"tier\":\"%s\",\"seed\":%llu,\"shard\":%u,\"nshards\":%u,\"evaluations\":%llu,\"distinct\":0,\"exhaustive\":false,\"rule\":\"\",\"wall_s\":0,"
		"\"crashed\":true,\"crash_kind\":\"%s\",\"cur_mode\":\"%s\",\"cur_case\":%lld,\"cur_detail\":\"%s\",\"samples\":[],\"counters\":{},\"notes\":{},\"violations\":[]}\n",
		rec.driver.c_str(), opt.tier.c_str(), (unsigned long long)opt.seed, opt.shard, opt.nshards, (unsigned long long)rec.evaluations,
		kind, rec.cur_mode, (long long)rec.cur_case, det);
	int fd = open(g_crash_path, O_WRONLY | O_CREAT | O_TRUNC, 0644);
	if(fd >= 0) { ssize_t r = write(fd, buf, n); (void)r; close(fd); }
}

inline void death_callback() { write_crash_minimal("sanitizer"); }
inline void fatal_signal(int sig) {
	const char *k = sig == SIGILL ? "SIGILL" : sig == SIGABRT ? "SIGABRT" : sig == SIGSEGV ? "SIGSEGV" : sig == SIGBUS ? "SIGBUS" : sig == SIGFPE ? "SIGFPE" : "signal";
	write_crash_minimal(k);
	char m[128]; int n = snprintf(m, sizeof m, "[verif] fatal signal %s in mode=%s case=%lld\n", k, rec.cur_mode, (long long)rec.cur_case);
	ssize_t r = write(2, m, n); (void)r;
	_exit(70);
}
inline void terminate_handler() {
	write_crash_minimal("terminate");
	const char m[] = "[verif] std::terminate (exception escaped a noexcept frame or no handler)\n";
	ssize_t r = write(2, m, sizeof m - 1); (void)r;
	_exit(71);
}

inline void parse_args(int argc, char **argv, const char *driver) {
	rec.driver = driver;
	clock_gettime(CLOCK_MONOTONIC, &rec.t0);
	for(int i = 1; i < argc; i++) {
		std::string a = argv[i];
		auto val = [&]() -> std::string { if(i + 1 >= argc) { fprintf(stderr, "missing value for %s\n", a.c_str()); exit(2); } return argv[++i]; };
		if(a == "--tier") opt.tier = val();
		else if(a == "--seed") opt.seed = strtoull(val().c_str(), 0, 10);
		else if(a == "--shard") { std::string v = val(); sscanf(v.c_str(), "%u/%u", &opt.shard, &opt.nshards); }
		else if(a == "--out") opt.out = val();
		else if(a == "--hashes") opt.hashes = val();
		else if(a == "--mode") opt.mode = val();
		else if(a == "--case") opt.only_case = strtoll(val().c_str(), 0, 10);
		else if(a == "--arg") opt.replay_arg = val();
		else if(a == "--scale") opt.scale = atof(val().c_str());
		else { fprintf(stderr, "unknown argument %s\n", a.c_str()); exit(2); }
	}
	if(!opt.out.empty()) snprintf(g_crash_path, sizeof g_crash_path, "%s", opt.out.c_str());
	std::set_terminate(terminate_handler);
	struct sigaction sa; memset(&sa, 0, sizeof sa); sa.sa_handler = fatal_signal;
	sigaction(SIGILL, &sa, nullptr);
	sigaction(SIGABRT, &sa, nullptr);
	sigaction(SIGFPE, &sa, nullptr);
#if defined(VERIF_ASAN) || defined(VERIF_TSAN)
	__sanitizer_set_death_callback(death_callback);
#else
	sigaction(SIGSEGV, &sa, nullptr);
	sigaction(SIGBUS, &sa, nullptr);
#endif
}

inline int finish() {
	write_result(false, "");
	fflush(stdout); fflush(stderr);
	return rec.violations.empty() ? 0 : 1;
}

// Run f() in a forked child with stderr silenced; returns its exit status (>=128: killed by a signal or sanitizer).
// Used only to demonstrate known findings whose witness kills the process.
template<typename F>
int in_child(F &&f) {
	fflush(stdout); fflush(stderr);
	pid_t pid = fork();
	if(pid == 0) {
		int dn = open("/dev/null", O_WRONLY);
		if(dn >= 0) { dup2(dn, 2); dup2(dn, 1); }
		g_crash_path[0] = 0; // the child must not overwrite the parent's result file
		int rc = f();
		_exit(rc);
	}
	int st = 0;
	if(waitpid(pid, &st, 0) < 0) return 255;
	if(WIFEXITED(st)) return WEXITSTATUS(st);
	return 128 + (WIFSIGNALED(st) ? WTERMSIG(st) : 0);
}

// Free-running multi-threaded drivers: a wall-clock watchdog whose firing is *inconclusive*, never a violation (logical
// deadlock/livelock verdicts come from the controlled scheduler). It only keeps a hung run from occupying the runner.
// The watchdog thread must not touch monitor state that the (possibly still running) driver writes: under ThreadSanitizer
// that would itself be a data race report. It therefore works from copies taken at start-up and one atomic counter.
inline char g_wd_json_head[1024];
inline unsigned g_wd_secs;
__attribute__((no_sanitize("thread"))) inline void *watchdog_main(void *) {
	sleep(g_wd_secs);
	char buf[2048];
	int n = snprintf(buf, sizeof buf, "%s\"evaluations\":%llu,\"distinct\":0,\"exhaustive\":false,\"rule\":\"\",\"wall_s\":%u,\"crashed\":false,"
		"\"cur_mode\":\"watchdog\",\"cur_case\":-1,\"cur_detail\":\"\",\"samples\":[],\"counters\":{\"inconclusive_wallclock_watchdog_fired\":1},\"notes\":{},\"violations\":[]}\n",
		g_wd_json_head, (unsigned long long)g_wd_evaluations.load(std::memory_order_relaxed), g_wd_secs);
	if(g_crash_path[0]) { int fd = open(g_crash_path, O_WRONLY | O_CREAT | O_TRUNC, 0644); if(fd >= 0) { ssize_t r = write(fd, buf, n); (void)r; close(fd); } }
	const char m[] = "[verif] wall-clock watchdog fired: this run is inconclusive\n";
	ssize_t r = write(2, m, sizeof m - 1); (void)r;
	_exit(0);
	return nullptr;
}
inline void start_inconclusive_watchdog(unsigned seconds) {
	static pthread_t th;
	g_wd_secs = seconds;
	snprintf(g_wd_json_head, sizeof g_wd_json_head, "{\"driver\":\"%s\",\"tier\":\"%s\",\"seed\":%llu,\"shard\":%u,\"nshards\":%u,", rec.driver.c_str(), opt.tier.c_str(), (unsigned long long)opt.seed, opt.shard, opt.nshards);
	pthread_create(&th, nullptr, watchdog_main, nullptr);
	pthread_detach(th);
}

// Scaled count: quick/thorough base numbers times --scale
inline uint64_t scaled(uint64_t quick, uint64_t thorough) {
	double v = (opt.thorough() ? (double)thorough : (double)quick) * opt.scale;
	return v < 1 ? 1 : (uint64_t)v;
}

// per-(seed, shard, mode) derived seed
inline uint64_t derive_seed(const char *mode, uint64_t extra = 0) {
	uint64_t h = hash_bytes(mode, strlen(mode));
	h = mix(h, opt.seed); h = mix(h, opt.shard); h = mix(h, extra);
	return h;
}

// Run one case under the PanicStop policy "a stop on a precondition-respecting call is a violation".
// Returns true if the body completed.
template<typename F>
bool guarded(const char *prop_prefix, F &&body) {
	try { body(); return true; }
	catch(const PanicStop &p) {
		// key: assert:<file>:<text>, file:line stripped of the directory, line kept out of the key
		std::string m = p.msg;
		std::string file = m, text = m;
		size_t c1 = m.find(".hpp:");
		if(c1 != std::string::npos) {
			size_t slash = m.rfind('/', c1);
			file = m.substr(slash == std::string::npos ? 0 : slash + 1, c1 + 4 - (slash == std::string::npos ? 0 : slash + 1));
			size_t q = m.find("Assertion '");
			if(q != std::string::npos) { text = m.substr(q + 11); size_t e = text.rfind("' failed"); if(e != std::string::npos) text = text.substr(0, e); }
		}
		violation(std::string(prop_prefix) + ":assert:" + file + ":" + text, "library assertion fired on a precondition-respecting call: " + m);
		return false;
	}
}

} // namespace verif

// The library's failure channel. Defined once per driver binary (this header is included by exactly one TU per binary,
// or VERIF_NO_PANIC_DEF is set in the others).
#ifndef VERIF_NO_PANIC_DEF
extern "C" void frg_panic(const char *msg) {
	verif::g_panic_count++;
	if(verif::g_panic_exits) {
		fprintf(stderr, "[verif] frg_panic: %s\n", msg);
		verif::write_crash_minimal("panic");
		_exit(72);
	}
	verif::PanicStop p;
	snprintf(p.msg, sizeof p.msg, "%s", msg);
	throw p;
}
extern "C" void frg_log(const char *msg) {
	(void)msg;
}
#endif

// Default hook (E1 engines): counts how often the library's verification points were passed.
// Concurrent engines (E2/E3) provide a strong definition instead.
namespace verif { inline uint64_t g_hook_hits = 0; }
#if !defined(VERIF_SCHED_HOOK) && !defined(VERIF_OWN_HOOK)
extern "C" __attribute__((weak)) void frg_verif_point(const char *site, const void *obj, unsigned long v) {
	(void)site; (void)obj; (void)v;
	verif::g_hook_hits++;
}
#endif
