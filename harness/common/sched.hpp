// E3: controlled scheduler. Real threads serialized by a baton (one semaphore per worker); a context switch can happen only
// at a scheduling point (frg_verif_point sites inside frigg, SchedMutex operations, explicit points of the driver scripts).
// Strategies: bounded-preemption DFS (stateless, re-execution with a recorded choice prefix), PCT-style priorities, random walk.
// Deadlock / livelock are verdicts on logical state (no wall clock): no enabled worker while some are blocked / parked.
#pragma once
#include "verif.hpp"
#include <semaphore.h>
#include <pthread.h>
#include <functional>
#include <vector>
#include <algorithm>

namespace sched {
using namespace verif;

enum class WState { Runnable, Blocked, Parked, Finished };
struct Abort {};

struct Outcome {
	enum Kind { Ok, Deadlock, Livelock, StepLimit, Panic } kind = Ok;
	std::string detail;
};

struct Strategy {
	virtual ~Strategy() {}
	// pick the worker to run next; `me` = running worker (or -1 at start / after a worker finished), `me_enabled` whether it may continue
	virtual int pick(int me, bool me_enabled, const std::vector<int> &enabled, uint64_t step) = 0;
	virtual void begin_run() {}
};

struct World;
inline World *g_world = nullptr;
inline thread_local int t_me = -1;

struct World {
	int n = 0;
	std::vector<sem_t> sems;
	sem_t done;
	std::vector<WState> st;
	std::vector<const void *> blocked_on;
	std::vector<const char *> at_site;
	uint64_t steps = 0, step_limit = 200000;
	uint64_t progress = 0;            // number of non-spin points executed
	uint64_t progress_at_forced_unpark = ~0ull;
	bool aborting = false;
	Outcome outcome;
	Strategy *strat = nullptr;
	uint64_t sig = 0;                 // signature of the schedule (sequence of running workers at points)
	uint64_t switches = 0;
	std::vector<std::function<void()>> bodies;
	std::vector<std::string> trace;   // last points, for reports
	bool keep_trace = false;
	std::function<void(int, const char *, const void *, unsigned long)> on_point; // monitor callback (runs with the baton)

	std::vector<int> enabled_set(int except = -1) const {
		std::vector<int> e;
		for(int i = 0; i < n; i++) if(i != except && st[i] == WState::Runnable) e.push_back(i);
		return e;
	}

	void wait_me(int me) {
		while(sem_wait(&sems[me]) != 0) {}
		if(aborting) throw Abort{};
	}

	[[noreturn]] void abort_run(Outcome::Kind k, const std::string &d) {
		if(!aborting) { aborting = true; outcome.kind = k; outcome.detail = d; }
		throw Abort{};
	}

	std::string where() const {
		std::string s;
		for(int i = 0; i < n; i++) s += strf("%sw%d:%s@%s", i ? " " : "", i, st[i] == WState::Runnable ? "runnable" : st[i] == WState::Blocked ? "blocked" : st[i] == WState::Parked ? "spinning" : "finished", at_site[i] ? at_site[i] : "-");
		return s;
	}
	std::string site_set(WState which) const {
		std::string s;
		for(int i = 0; i < n; i++) if(st[i] == which) { std::string a = at_site[i] ? at_site[i] : "-"; if(s.find(a) == std::string::npos) s += (s.empty() ? "" : "+") + a; }
		return s;
	}

	// hand the baton on; returns when `me` is scheduled again
	void reschedule(int me, bool me_enabled) {
		std::vector<int> en = enabled_set();
		if(en.empty()) {
			bool any_blocked = false, any_parked = false;
			for(int i = 0; i < n; i++) { if(st[i] == WState::Blocked) any_blocked = true; if(st[i] == WState::Parked) any_parked = true; }
			// Wait loops may have side effects of their own (quiescent_barrier() acks inside its loop): if anything happened since
			// the last time every worker was parked, let them all go round once more. Two consecutive "everybody parked" states
			// without a single non-spin step in between are a livelock.
			if(any_parked && progress != progress_at_forced_unpark) {
				progress_at_forced_unpark = progress;
				for(int i = 0; i < n; i++) if(st[i] == WState::Parked) st[i] = WState::Runnable;
				en = enabled_set();
			}
		}
		if(en.empty()) {
			bool any_blocked = false, any_parked = false;
			for(int i = 0; i < n; i++) { if(st[i] == WState::Blocked) any_blocked = true; if(st[i] == WState::Parked) any_parked = true; }
			if(any_parked) abort_run(Outcome::Livelock, "only spinning workers are left and nothing can change what they wait for: " + where());
			if(any_blocked) abort_run(Outcome::Deadlock, "every unfinished worker is blocked on a mutex: " + where());
			abort_run(Outcome::Deadlock, "no enabled worker: " + where());
		}
		int next = strat->pick(me, me_enabled, en, steps);
		if(next == me) return;
		switches++;
		sem_post(&sems[next]);
		wait_me(me);
	}

	void point(const char *site, const void *obj, unsigned long v, bool spin) {
		int me = t_me;
		if(me < 0) return;
		if(aborting) throw Abort{};
		steps++;
		at_site[me] = site;
		sig = mix(sig, (uint64_t)me * 131 + (spin ? 7 : 1));
		if(keep_trace) { if(trace.size() > 400) trace.erase(trace.begin(), trace.begin() + 200); trace.push_back(strf("w%d %s(%lu)", me, site, v)); }
		if(on_point) on_point(me, site, obj, v);
		if(steps > step_limit) abort_run(Outcome::StepLimit, strf("step budget of %llu points exceeded: %s", (unsigned long long)step_limit, where().c_str()));
		if(spin) {
			// the caller just failed a wait condition: de-schedule it until some other worker has made a non-spin step
			st[me] = WState::Parked;
			reschedule(me, false);
			return;
		}
		progress++;
		for(int i = 0; i < n; i++) if(st[i] == WState::Parked) st[i] = WState::Runnable; // shared state may have changed
		reschedule(me, true);
	}

	void block_on(const void *m) {
		int me = t_me;
		st[me] = WState::Blocked; blocked_on[me] = m;
		reschedule(me, false);
	}
	void wake(const void *m) {
		for(int i = 0; i < n; i++) if(st[i] == WState::Blocked && blocked_on[i] == m) { st[i] = WState::Runnable; blocked_on[i] = nullptr; }
	}

	void finish_worker(int me) {
		st[me] = WState::Finished;
		at_site[me] = "finished";
		if(aborting) {
			for(int i = 0; i < n; i++) if(st[i] != WState::Finished) { sem_post(&sems[i]); return; }
			sem_post(&done);
			return;
		}
		progress++;
		for(int i = 0; i < n; i++) if(st[i] == WState::Parked) st[i] = WState::Runnable;
		std::vector<int> en = enabled_set();
		if(en.empty()) {
			bool all_done = true, any_parked = false;
			for(int i = 0; i < n; i++) { if(st[i] != WState::Finished) all_done = false; if(st[i] == WState::Parked) any_parked = true; }
			if(all_done) { sem_post(&done); return; }
			aborting = true; outcome.kind = any_parked ? Outcome::Livelock : Outcome::Deadlock;
			outcome.detail = "a worker finished and every remaining worker is blocked: " + where();
			for(int i = 0; i < n; i++) if(st[i] != WState::Finished) { sem_post(&sems[i]); return; }
			sem_post(&done);
			return;
		}
		int next = strat->pick(-1, false, en, steps);
		sem_post(&sems[next]);
	}

	static void *thread_main(void *arg) {
		auto *pr = (std::pair<World *, int> *)arg;
		World *w = pr->first; int me = pr->second;
		delete pr;
		t_me = me;
		try {
			w->wait_me(me);
			w->bodies[me]();
		} catch(const Abort &) {
		} catch(const PanicStop &p) {
			if(!w->aborting) { w->aborting = true; w->outcome.kind = Outcome::Panic; w->outcome.detail = p.msg; }
		}
		t_me = -1;
		w->finish_worker(me);
		return nullptr;
	}

	Outcome run(std::vector<std::function<void()>> b, Strategy &s) {
		bodies = std::move(b);
		n = (int)bodies.size();
		sems.resize(n); st.assign(n, WState::Runnable); blocked_on.assign(n, nullptr); at_site.assign(n, "start");
		for(auto &x : sems) sem_init(&x, 0, 0);
		sem_init(&done, 0, 0);
		steps = 0; progress = 0; progress_at_forced_unpark = ~0ull; aborting = false; outcome = {}; sig = 0; switches = 0; trace.clear();
		strat = &s; s.begin_run();
		g_world = this;
		std::vector<pthread_t> th(n);
		pthread_attr_t attr; pthread_attr_init(&attr); pthread_attr_setstacksize(&attr, 256 * 1024);
		for(int i = 0; i < n; i++) pthread_create(&th[i], &attr, thread_main, new std::pair<World *, int>(this, i));
		pthread_attr_destroy(&attr);
		int first = s.pick(-1, false, enabled_set(), 0);
		sem_post(&sems[first]);
		while(sem_wait(&done) != 0) {}
		for(int i = 0; i < n; i++) pthread_join(th[i], nullptr);
		for(auto &x : sems) sem_destroy(&x);
		sem_destroy(&done);
		g_world = nullptr;
		return outcome;
	}
};

// ---------------------------------------------------------------- strategies
struct RandomWalk : Strategy {
	Rng r; unsigned num, den;
	RandomWalk(uint64_t seed, unsigned num_, unsigned den_) : r(seed), num(num_), den(den_) {}
	int pick(int me, bool me_enabled, const std::vector<int> &en, uint64_t) override {
		if(me_enabled && !r.chance(num, den)) return me;
		return en[r.below(en.size())];
	}
};

struct Pct : Strategy {
	Rng r; int d; uint64_t expected_steps;
	std::vector<int> prio; std::vector<uint64_t> change_at; int low = 0;
	Pct(uint64_t seed, int d_, uint64_t expected_steps_) : r(seed), d(d_), expected_steps(expected_steps_ ? expected_steps_ : 100) {}
	void begin_run() override {
		prio.clear(); change_at.clear(); low = 0;
		for(int i = 0; i < d; i++) change_at.push_back(1 + r.below(expected_steps));
	}
	int pick(int me, bool, const std::vector<int> &en, uint64_t step) override {
		int maxid = 0; for(int e : en) maxid = std::max(maxid, e);
		if(me > maxid) maxid = me;
		while((int)prio.size() <= maxid) prio.push_back(1000 + (int)r.below(1000000));
		for(uint64_t c : change_at) if(c == step && me >= 0) prio[me] = --low; // priority change point: the running worker drops below everyone
		int best = en[0];
		for(int e : en) if(prio[e] > prio[best]) best = e;
		return best;
	}
};

// stateless DFS over schedules with at most `bound` preemptions
struct Dfs : Strategy {
	struct Decision { std::vector<int> options; size_t idx; int preempt_before; };
	std::vector<Decision> stack;
	size_t depth = 0; int preempts = 0; int bound;
	uint64_t runs = 0; bool exhausted = false;
	size_t max_depth = 0;
	explicit Dfs(int bound_) : bound(bound_) {}
	std::vector<uint64_t> last_run; uint64_t tick = 0;
	void begin_run() override { depth = 0; preempts = 0; runs++; last_run.clear(); tick = 0; }
	int pick(int me, bool me_enabled, const std::vector<int> &en, uint64_t) override {
		// alternatives are ordered least-recently-run first, so that the default continuation of a schedule is fair
		// (a worker that only waits cannot starve the one it waits for)
		std::vector<int> order = en;
		for(int e : order) if((int)last_run.size() <= e) last_run.resize(e + 1, 0);
		std::stable_sort(order.begin(), order.end(), [&](int a, int b) { return last_run[a] < last_run[b]; });
		std::vector<int> opts;
		if(me_enabled) { opts.push_back(me); if(preempts < bound) for(int e : order) if(e != me) opts.push_back(e); }
		else opts = order;
		int chosen;
		if(opts.size() == 1) chosen = opts[0];
		else {
			if(depth < stack.size()) {
				Decision &d = stack[depth];
				if(d.options != opts) { // the program is not a deterministic function of the choices
					count("dfs_nondeterminism_detected");
					d.options = opts; if(d.idx >= opts.size()) d.idx = 0;
				}
				chosen = d.options[d.idx];
			} else { stack.push_back({opts, 0, preempts}); chosen = opts[0]; }
			depth++;
			if(depth > max_depth) max_depth = depth;
		}
		if(me_enabled && chosen != me) preempts++;
		if((int)last_run.size() <= chosen) last_run.resize(chosen + 1, 0);
		last_run[chosen] = ++tick;
		return chosen;
	}
	// prepare the next schedule; false when the space is exhausted
	bool advance() {
		if(stack.size() > depth) stack.resize(depth); // decisions beyond what this run reached
		while(!stack.empty()) {
			Decision &d = stack.back();
			if(d.idx + 1 < d.options.size()) { d.idx++; return true; }
			stack.pop_back();
		}
		exhausted = true;
		return false;
	}
};

// fixed choice list (replay)
struct Replay : Strategy {
	std::vector<int> choices; size_t i = 0;
	int pick(int me, bool me_enabled, const std::vector<int> &en, uint64_t) override {
		if(i < choices.size()) { int c = choices[i++]; for(int e : en) if(e == c) return c; if(me_enabled && c == me) return me; }
		return me_enabled ? me : en[0];
	}
};

// ---------------------------------------------------------------- SchedMutex: blocking mutex inside the scheduled world
struct SchedMutexStats { std::vector<int> held; uint64_t locks = 0, unlocks = 0; };
inline SchedMutexStats g_smx;
inline std::string g_lock_prop = "C05";

struct SchedMutex {
	int owner = -1;
	void lock() {
		World *w = g_world; int me = t_me;
		if(!w || me < 0) { owner = -2; return; } // driver thread during setup: uncontended
		w->point("mutex.lock", this, 0, false);
		if(owner == me) { violation(g_lock_prop + ":lock:relock-by-owner", "a mutex is locked again by the worker that already holds it (self-deadlock)"); w->abort_run(Outcome::Deadlock, "self-deadlock on a mutex"); }
		while(owner != -1) w->block_on(this);
		owner = me;
		if((int)g_smx.held.size() <= me) g_smx.held.resize(me + 1, 0);
		g_smx.held[me]++; g_smx.locks++;
	}
	void unlock() {
		World *w = g_world; int me = t_me;
		if(!w || me < 0) { owner = -1; return; }
		if(owner != me) { violation(g_lock_prop + ":lock:unlock-by-non-owner", "a mutex is unlocked by a worker that does not hold it"); return; }
		owner = -1; g_smx.held[me]--; g_smx.unlocks++;
		w->wake(this);
		// unlock() is called from guard destructors (noexcept): an abort of the run must not propagate from here;
		// the worker unwinds at its next scheduling point instead
		try { w->point("mutex.unlock", this, 0, false); } catch(const Abort &) { }
	}
	static int held_by_me() { int me = t_me; return (me >= 0 && me < (int)g_smx.held.size()) ? g_smx.held[me] : 0; }
};

inline void yield_point(const char *site, unsigned long v = 0) { if(g_world) g_world->point(site, nullptr, v, false); }

} // namespace sched

// strong definition of the library hook for scheduled engines
#ifdef VERIF_SCHED_HOOK
namespace sched { inline uint64_t g_unscheduled_spins = 0; /* reset by the driver before each operation */ inline uint64_t g_unscheduled_spin_budget = 200000; }
extern "C" void frg_verif_point(const char *site, const void *obj, unsigned long v) {
	verif::g_hook_hits++;
	bool spin = site[0] == 's' && site[1] == 'p' && site[2] == 'i' && site[3] == 'n' && site[4] == ':';
	if(sched::g_world && sched::t_me >= 0) { sched::g_world->point(site, obj, v, spin); return; }
	// single-threaded engine: a wait loop that keeps spinning can never be satisfied by anybody else
	if(spin && ++sched::g_unscheduled_spins > sched::g_unscheduled_spin_budget) {
		sched::g_unscheduled_spins = 0;
		verif::PanicStop p; snprintf(p.msg, sizeof p.msg, "verif: wait loop at %s did not terminate after %llu iterations in a single-threaded run (nobody else can change what it waits for)", site, (unsigned long long)sched::g_unscheduled_spin_budget);
		throw p;
	}
}
#endif
