// TrackedAlloc (block registry allocator), Elem (lifetime-registering element), GuardedBuf (exact-size input buffers).
// All single-threaded (E1) monitors.
#pragma once
#include "verif.hpp"
#include <unordered_map>
#include <sys/mman.h>

namespace verif {

// Which property's oracles are armed in this run (drivers shared between C13/C16/... set this from --arg).
inline std::string g_lifetime_prop = "C16";   // key prefix for lifetime/allocation violations
inline bool g_lifetime_armed = true;           // report them (true) or only count them (false)

inline void lifetime_violation(const std::string &kind, const std::string &what) {
	count("lifetime_events_flagged");
	if(g_lifetime_armed) violation(g_lifetime_prop + ":lifetime:" + kind, what);
	else count("unarmed:" + kind);
}

// ---------------------------------------------------------------- TrackedAlloc
struct AllocState {
	std::unordered_map<void *, size_t> live;
	uint64_t allocs = 0, releases = 0, null_releases = 0, bytes = 0;
	std::string owner = "?";
	long fail_countdown = -1; // >=0: the n-th next allocation returns nullptr (not used by frigg containers, which do not check)
};

struct TrackedAlloc {
	AllocState *st;
	TrackedAlloc() : st(default_state()) {}
	explicit TrackedAlloc(AllocState *s) : st(s) {}
	static AllocState *&default_state() { static AllocState *s = new AllocState; return s; }

	void *allocate(size_t n) {
		void *p = malloc(n ? n : 1); // exact size: ASan red zone starts right behind byte n-1 (n=0: one byte)
		memset(p, 0xCD, n ? n : 1);
		st->live[p] = n;
		st->allocs++; st->bytes += n;
		count("alloc_blocks");
		return p;
	}
	void release(void *p, bool sized, size_t n) {
		if(!p) { st->null_releases++; return; }
		auto it = st->live.find(p);
		if(it == st->live.end()) {
			lifetime_violation("alloc:release-unknown:" + st->owner, strf("%s: release of %p which is not a live block of this allocator (double free or foreign pointer)", st->owner.c_str(), p));
			return; // do not pass it to free()
		}
		if(sized && it->second != n)
			lifetime_violation("alloc:dealloc-size:" + st->owner, strf("%s: deallocate(p, %zu) but the block was allocated with %zu bytes", st->owner.c_str(), n, it->second));
		memset(p, 0xDD, it->second ? it->second : 1);
		st->live.erase(it);
		st->releases++;
		::free(p);
	}
	void free(void *p) { release(p, false, 0); }
	void deallocate(void *p, size_t n) { release(p, true, n); }
	friend void swap(TrackedAlloc &a, TrackedAlloc &b) { std::swap(a.st, b.st); }
};

// the same allocator with the optional reallocate() member (as frg::slab_allocator has): realloc semantics - the old block is
// released by the call when the block moves, and this one always moves
struct TrackedAllocR : TrackedAlloc {
	using TrackedAlloc::TrackedAlloc;
	void *reallocate(void *p, size_t n) {
		count("alloc_reallocate_calls");
		if(!p) return allocate(n);
		auto it = st->live.find(p);
		size_t old = it == st->live.end() ? 0 : it->second;
		void *q = allocate(n);
		if(q && old) memcpy(q, p, old < n ? old : n);
		release(p, false, 0);
		return q;
	}
	friend void swap(TrackedAllocR &a, TrackedAllocR &b) { std::swap(a.st, b.st); }
};

inline void expect_no_blocks(AllocState &st, const char *when) {
	if(!st.live.empty()) {
		lifetime_violation("alloc:leak:" + st.owner, strf("%s: %zu block(s) still allocated %s", st.owner.c_str(), st.live.size(), when));
		for(auto &kv : st.live) ::free(kv.first);
		st.live.clear();
	}
}

// ---------------------------------------------------------------- Elem
struct ElemRegistry {
	std::unordered_map<const void *, uint32_t> alive; // address -> serial
	uint64_t constructed = 0, destroyed = 0, copies = 0, moves = 0, assigns = 0, default_ctors = 0;
	uint32_t serial = 0;
	std::string owner = "?";
};
inline ElemRegistry g_elems;

inline void expect_no_elems(const char *when) {
	if(!g_elems.alive.empty()) {
		lifetime_violation("elem:leak:" + g_elems.owner, strf("%s: %zu element object(s) never destroyed %s", g_elems.owner.c_str(), g_elems.alive.size(), when));
		g_elems.alive.clear();
	}
}

template<bool Copyable, bool Movable>
struct ElemT {
	static constexpr uint32_t MAGIC = 0xE1E37A6Cu;
	uint32_t magic;
	int value;
	uint8_t moved_from; // not bool: the monitor itself must be able to read junk-filled raw storage without UB

	bool self_alive() const { return g_elems.alive.count(this) != 0; }
	void born(const char *how) {
		if(self_alive())
			lifetime_violation("elem:construct-over-live:" + g_elems.owner, strf("%s: %s at %p, where another object is still alive", g_elems.owner.c_str(), how, (const void *)this));
		g_elems.alive[this] = ++g_elems.serial;
		g_elems.constructed++;
		magic = MAGIC;
	}
	static bool src_ok(const ElemT *o, const char *how) {
		if(!g_elems.alive.count(o)) {
			lifetime_violation(std::string("elem:use-outside-lifetime:") + how + ":" + g_elems.owner, strf("%s: %s reads the object at %p outside its lifetime (never constructed, relocated bytewise, or already destroyed)", g_elems.owner.c_str(), how, (const void *)o));
			return false;
		}
		return true;
	}

	ElemT() : value(0), moved_from(0) { born("default construction"); g_elems.default_ctors++; }
	explicit ElemT(int v) : value(v), moved_from(0) { born("construction"); }
	ElemT(int a, int b) : value(a * 1000 + b), moved_from(0) { born("construction(a,b)"); }
	// A source outside its lifetime has no value: what is "read" from it is junk by definition, and the monitor makes that junk
	// deterministic (DEAD_VALUE) so that value-comparing oracles (C13/C14/C17) observe the read, not only the lifetime registry (C16).
	static constexpr int DEAD_VALUE = 0x7BADBAD;
	ElemT(const ElemT &o) requires Copyable : value(o.value), moved_from(o.moved_from) { if(!src_ok(&o, "copy-construct-from")) value = DEAD_VALUE; born("copy construction"); g_elems.copies++; }
	ElemT(ElemT &&o) requires Movable : value(o.value), moved_from(o.moved_from) {
		bool ok = src_ok(&o, "move-construct-from"); born("move construction"); g_elems.moves++;
		if(ok) o.moved_from = 1; else value = DEAD_VALUE;
	}
	ElemT &operator=(const ElemT &o) requires Copyable {
		bool ok = src_ok(&o, "copy-assign-from"); src_ok(this, "copy-assign-to");
		value = ok ? o.value : DEAD_VALUE; moved_from = o.moved_from; g_elems.assigns++; return *this;
	}
	ElemT &operator=(ElemT &&o) requires Movable {
		bool ok = src_ok(&o, "move-assign-from"); src_ok(this, "move-assign-to");
		value = ok ? o.value : DEAD_VALUE; moved_from = o.moved_from; if(ok && &o != this) o.moved_from = 1; g_elems.assigns++; return *this;
	}
	~ElemT() {
		auto it = g_elems.alive.find(this);
		if(it == g_elems.alive.end())
			lifetime_violation("elem:destroy-outside-lifetime:" + g_elems.owner, strf("%s: destructor runs on %p which holds no live object (double destruction, or destruction of a never-constructed / relocated object)", g_elems.owner.c_str(), (const void *)this));
		else g_elems.alive.erase(it);
		g_elems.destroyed++;
		magic = 0xDEADDEAD;
	}
	int get() const { return src_ok(this, "read") ? value : DEAD_VALUE; }
	bool operator==(const ElemT &o) const { src_ok(this, "compare"); src_ok(&o, "compare"); return value == o.value; }
};
using Elem = ElemT<true, true>;
using ElemCopyOnly = ElemT<true, false>;
using ElemMoveOnly = ElemT<false, true>;

struct Pod {
	int value;
	Pod() : value(0) {}
	explicit Pod(int v) : value(v) {}
	Pod(int a, int b) : value(a * 1000 + b) {}
	int get() const { return value; }
	bool operator==(const Pod &o) const = default;
};
static_assert(std::is_trivially_copyable_v<Pod>);
// trivially copyable, but value-initialisation is NOT all-zero bytes (default member initialisers): a container that zero-fills new
// elements instead of constructing them is observable
struct PodNZ {
	int value = -7; unsigned generation = 1;
	PodNZ() = default;
	explicit PodNZ(int v) : value(v) {}
	PodNZ(int a, int b) : value(a * 1000 + b) {}
	int get() const { return generation == 1 ? value : 0x7BAD0000 + (int)generation; }
	bool operator==(const PodNZ &o) const = default;
};
static_assert(std::is_trivially_copyable_v<PodNZ>);

// ---------------------------------------------------------------- GuardedBuf
// Input bytes placed so that buf[len] (and, under ASan, buf[-1]) is unaddressable.
struct GuardedBuf {
	char *p = nullptr; size_t len = 0;
	void *map = nullptr; size_t maplen = 0;
	GuardedBuf() {}
	GuardedBuf(const void *src, size_t n) { assign(src, n); }
	GuardedBuf(const GuardedBuf &) = delete;
	GuardedBuf &operator=(const GuardedBuf &) = delete;
	void reset() {
#ifdef VERIF_ASAN
		if(p) ::free(p);
#else
		if(map) munmap(map, maplen);
#endif
		p = nullptr; map = nullptr; len = 0;
	}
	void assign(const void *src, size_t n) {
		reset();
		len = n;
#ifdef VERIF_ASAN
		p = (char *)malloc(n ? n : 1);
		if(n) memcpy(p, src, n);
		if(!n) __asan_poison_memory_region(p, 1);
#else
		size_t pg = 4096;
		size_t body = (n + pg - 1) / pg * pg;
		if(body == 0) body = pg;
		maplen = body + pg;
		map = mmap(nullptr, maplen, PROT_READ | PROT_WRITE, MAP_PRIVATE | MAP_ANONYMOUS, -1, 0);
		mprotect((char *)map + body, pg, PROT_NONE);
		p = (char *)map + body - n;
		if(n) memcpy(p, src, n);
#endif
	}
	~GuardedBuf() {
#ifdef VERIF_ASAN
		if(p && !len) __asan_unpoison_memory_region(p, 1);
#endif
		reset();
	}
	const char *data() const { return p; }
	char *data() { return p; }
	size_t size() const { return len; }
};

} // namespace verif
