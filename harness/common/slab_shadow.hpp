// ShadowPolicy: slab Policy implementations generated from one template, with a registry of live mappings,
// a byte-accurate poison shadow, optional forwarding of poison state to ASan, fault countdown and a callback log.
// SeqMutex: Mutex for single-threaded engines that records owner state (re-lock, unlock of a free mutex, locks held
// inside policy callbacks).
#pragma once
#include <type_traits>
#include "verif.hpp"
#include <map>
#include <vector>
#include <sys/mman.h>

namespace verif {

// ---------------------------------------------------------------- SeqMutex
struct SeqMutexStats { long held = 0; uint64_t locks = 0, unlocks = 0; };
inline SeqMutexStats g_seqmutex;
inline std::string g_slab_prop_for_locks = "C05";

struct SeqMutex {
	bool locked = false;
	void lock() {
		if(locked) violation(g_slab_prop_for_locks + ":lock:relock-by-owner", "a pool mutex is locked again by the thread that already holds it (self-deadlock with a real mutex)");
		locked = true; g_seqmutex.held++; g_seqmutex.locks++;
	}
	void unlock() {
		if(!locked) { violation(g_slab_prop_for_locks + ":lock:unlock-of-free-mutex", "a pool mutex that is not held is unlocked"); return; }
		locked = false; g_seqmutex.held--; g_seqmutex.unlocks++;
	}
};

// ---------------------------------------------------------------- shadow state (shared by all policy instantiations)
struct Mapping {
	uintptr_t base = 0; size_t len = 0;
	void *raw = nullptr; size_t rawlen = 0;
	uint64_t serial = 0;
	std::vector<uint8_t> poison; // 1 = poisoned (only maintained for poisoning policies)
	uintptr_t hdr_lo = 0, hdr_hi = 0; // pool header range (first unpoison at the superblock-aligned address)
	long pages_delta = 0;            // numUsedPages() increment observed when the mapping was created
	bool delta_known = false;
	int for_class = -1;              // -1 = not yet known, -2 = large reservation, otherwise the small class size
	size_t live_blocks = 0;          // maintained by the model
};

struct ShadowState {
	std::map<uintptr_t, Mapping> maps; // by base
	uint64_t n_map = 0, n_unmap = 0, n_poison = 0, n_unpoison = 0, n_unpoison_expand = 0, n_failed = 0;
	uint64_t serial = 0;
	long fail_countdown = -1;      // >=0: the map call with this countdown value 0 returns 0
	std::vector<uint64_t> fail_set; // alternatively: serial numbers of map attempts to fail (1-based attempt index)
	uint64_t map_attempts = 0;
	bool forward_asan = true;
	bool reentrant = false;
	std::string prop_protocol = "C03";
	Rng rng{12345};
	// per-API-operation bookkeeping (set by the model around each pool call)
	std::vector<uintptr_t> created_in_op, destroyed_in_op;
	std::vector<std::pair<uintptr_t, size_t>> destroyed_ranges;
	std::function<void(const std::string &, const std::string &)> protocol_flag; // set by the model: routes protocol violations to the armed property
	uint64_t unpoison_not_fully_poisoned = 0; // informational (strict kernel protocol)
	Mapping *find(uintptr_t a) {
		auto it = maps.upper_bound(a);
		if(it == maps.begin()) return nullptr;
		--it;
		if(a >= it->second.base && a < it->second.base + it->second.len) return &it->second;
		return nullptr;
	}
};
inline ShadowState *g_shadow = nullptr;

// The geometry constants a policy may spell out or leave to the pool's defaults (page 4 KiB, slab 256 KiB, superblock 256 KiB,
// 13 classes). OMIT is a bit mask of the constants this policy does NOT declare (1 sb_size, 2 slabsize, 4 pagesize, 8 num_buckets);
// the model always reads the m_* names, for an omitted constant the template argument has to be the documented default.
template<size_t V> struct DeclPagesize { static constexpr size_t pagesize = V; };
template<size_t V> struct DeclSlabsize { static constexpr size_t slabsize = V; };
template<size_t V> struct DeclSbSize { static constexpr size_t sb_size = V; };
template<int V> struct DeclNumBuckets { static constexpr int num_buckets = V; };
template<int> struct DeclNothing {};
template<size_t PAGE, size_t SLAB, size_t SB, int NB, bool ALIGNED, bool POISON, unsigned OMIT = 0>
struct ShadowPolicy : std::conditional_t<(OMIT & 4) != 0, DeclNothing<0>, DeclPagesize<PAGE>>, std::conditional_t<(OMIT & 2) != 0, DeclNothing<1>, DeclSlabsize<SLAB>>,
		std::conditional_t<(OMIT & 1) != 0, DeclNothing<2>, DeclSbSize<SB>>, std::conditional_t<(OMIT & 8) != 0, DeclNothing<3>, DeclNumBuckets<NB>> {
	static constexpr size_t m_pagesize = PAGE, m_slabsize = SLAB, m_sb_size = SB;
	static constexpr int m_num_buckets = NB;
	static_assert(!(OMIT & 4) || PAGE == 0x1000, "omitted pagesize: the pool's default is 4 KiB");
	static_assert(!(OMIT & 2) || SLAB == (1 << 18), "omitted slabsize: the pool's default is 256 KiB");
	static_assert(!(OMIT & 1) || SB == (1 << 18), "omitted sb_size: the pool's default is 256 KiB");
	static_assert(!(OMIT & 8) || NB == 13, "omitted num_buckets: the pool's default is 13");
	static constexpr bool aligned = ALIGNED;
	static constexpr bool poisoning = POISON;
	ShadowState &st;
	explicit ShadowPolicy(ShadowState &s) : st(s) {}

	void proto(const std::string &kind, const std::string &msg) {
		if(st.protocol_flag) st.protocol_flag(kind, msg); else violation(st.prop_protocol + ":protocol:" + kind, msg);
	}

	void check_no_lock(const char *cb) {
		if(g_seqmutex.held != 0)
			violation("C05:policy-called-with-pool-lock:" + std::string(cb), strf("Policy::%s entered while the calling thread holds %ld pool mutex(es)", cb, g_seqmutex.held));
	}

	uintptr_t do_map(size_t len, size_t align) {
		check_no_lock("map");
		st.map_attempts++;
		bool fail = false;
		if(st.fail_countdown == 0) fail = true;
		if(st.fail_countdown >= 0) st.fail_countdown--;
		for(uint64_t f : st.fail_set) if(f == st.map_attempts) fail = true;
		if(fail) { st.n_failed++; count("map_failures_injected"); return 0; }
		if(len == 0 || (len % PAGE) != 0) proto("map-length", strf("map() asked for %zu bytes, not a positive multiple of the page size", len));
		size_t slack = align ? align : (SB + PAGE);
		size_t rawlen = len + slack + PAGE;
		void *raw = mmap(nullptr, rawlen, PROT_READ | PROT_WRITE, MAP_PRIVATE | MAP_ANONYMOUS | MAP_NORESERVE, -1, 0);
		if(raw == MAP_FAILED) { fprintf(stderr, "harness: mmap failed\n"); exit(2); }
		uintptr_t base = (uintptr_t)raw;
		if(align) base = (base + align - 1) & ~(uintptr_t)(align - 1);
		else {
			// page-aligned, deliberately at varying offsets relative to the superblock size (including exactly aligned)
			uintptr_t al = (base + SB - 1) & ~(uintptr_t)(SB - 1);
			switch(st.rng.below(6)) {
			case 0: base = al; break;                                                 // already superblock-aligned
			case 1: base = al + PAGE <= (uintptr_t)raw + slack ? al + PAGE : al; break; // just past an aligned address
			case 2: base = al >= (uintptr_t)raw + PAGE ? al - PAGE : al; break;         // one page before
			case 3: base = ((uintptr_t)raw + PAGE - 1) & ~(uintptr_t)(PAGE - 1); break;
			// the one-argument map() promises no alignment at all (an arena or malloc-backed policy): bases that are not even page-aligned
			case 4: base = al + 64 <= (uintptr_t)raw + slack ? al + 64 : al; count("policy_map_bases_not_page_aligned"); break; // 64 bytes past a superblock boundary
			default: base = (uintptr_t)raw + 64 * (1 + st.rng.below(PAGE / 64 - 1)); count("policy_map_bases_not_page_aligned"); break;
			}
			if(base < (uintptr_t)raw) base = al;
		}
		Mapping m; m.base = base; m.len = len; m.raw = raw; m.rawlen = rawlen; m.serial = ++st.serial;
		if(POISON) {
			m.poison.assign(len, 1);
#ifdef VERIF_ASAN
			if(st.forward_asan) __asan_poison_memory_region((void *)base, len);
#endif
		}
		st.maps[base] = std::move(m);
		st.n_map++;
		st.created_in_op.push_back(base);
		count("policy_map_calls");
		return base;
	}
	// (OMIT bit 16: the policy offers BOTH forms of map(); the pool is expected to use the aligned one, the model treats a call of
	// the plain one like that of a plain-only policy)
	uintptr_t map(size_t len) requires (!ALIGNED || (OMIT & 16) != 0) { if(ALIGNED) count("plain_map_calls_of_a_policy_that_also_has_the_aligned_form"); return do_map(len, 0); }
	uintptr_t map(size_t len, size_t align) requires ALIGNED {
		if(align != SB) proto("map-align", strf("map(len, align) asked for alignment %zu, expected the superblock size %zu", align, (size_t)SB));
		return do_map(len, align);
	}
	void unmap(uintptr_t base, size_t len) {
		check_no_lock("unmap");
		auto it = st.maps.find(base);
		if(it == st.maps.end()) {
			proto("unmap-unknown", strf("unmap(%#lx, %zu): no live mapping has this base (never mapped, already unmapped, or a different base than map returned)", (unsigned long)base, len));
			return;
		}
		Mapping &m = it->second;
		if(m.len != len) proto("unmap-length", strf("unmap(%#lx, %zu) but map was asked for %zu bytes", (unsigned long)base, len, m.len));
		st.destroyed_ranges.push_back({m.base, m.len});
#ifdef VERIF_ASAN
		if(POISON && st.forward_asan) __asan_unpoison_memory_region((void *)m.base, m.len);
#endif
		munmap(m.raw, m.rawlen);
		st.destroyed_in_op.push_back(base);
		st.maps.erase(it);
		st.n_unmap++;
		count("policy_unmap_calls");
	}
	// poison hooks (present only for poisoning configurations)
	Mapping *range_ok(const char *cb, void *p, size_t n) {
		Mapping *m = st.find((uintptr_t)p);
		if(!m || (uintptr_t)p + n > m->base + m->len) {
			proto(std::string(cb) + "-outside-mapping", strf("%s(%p, %zu) is not inside one live mapping", cb, p, n));
			return nullptr;
		}
		return m;
	}
	void poison(void *p, size_t n) requires POISON {
		st.n_poison++;
		Mapping *m = range_ok("poison", p, n); if(!m) return;
		std::fill(m->poison.begin() + ((uintptr_t)p - m->base), m->poison.begin() + ((uintptr_t)p - m->base) + n, 1);
#ifdef VERIF_ASAN
		if(st.forward_asan) __asan_poison_memory_region(p, n);
#endif
	}
	void unpoison(void *p, size_t n) requires POISON {
		st.n_unpoison++;
		Mapping *m = range_ok("unpoison", p, n); if(!m) return;
		size_t off = (uintptr_t)p - m->base;
		for(size_t i = 0; i < n; i++) if(!m->poison[off + i]) { st.unpoison_not_fully_poisoned++; break; }
		std::fill(m->poison.begin() + off, m->poison.begin() + off + n, 0);
		// the first unpoison at the superblock-aligned address of a fresh mapping is the pool's frame header
		uintptr_t al = ALIGNED ? m->base : ((m->base + SB - 1) & ~(uintptr_t)(SB - 1));
		if(!m->hdr_hi && (uintptr_t)p == al) { m->hdr_lo = al; m->hdr_hi = al + n; }
#ifdef VERIF_ASAN
		if(st.forward_asan) __asan_unpoison_memory_region(p, n);
#endif
	}
	void unpoison_expand(void *p, size_t n) requires POISON {
		st.n_unpoison_expand++;
		Mapping *m = range_ok("unpoison_expand", p, n); if(!m) return;
		size_t off = (uintptr_t)p - m->base;
		std::fill(m->poison.begin() + off, m->poison.begin() + off + n, 0);
#ifdef VERIF_ASAN
		if(st.forward_asan) __asan_unpoison_memory_region(p, n);
#endif
	}
};

inline void shadow_release_all(ShadowState &st) {
	for(auto &kv : st.maps) {
#ifdef VERIF_ASAN
		if(!kv.second.poison.empty() && st.forward_asan) __asan_unpoison_memory_region((void *)kv.second.base, kv.second.len);
#endif
		munmap(kv.second.raw, kv.second.rawlen);
	}
	st.maps.clear();
}

} // namespace verif
