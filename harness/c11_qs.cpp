// C11: qs_domain / qs_agent.
//  E1: one driver thread owning 1-3 agents performs all admissible whole-operation sequences (safety S1/S2/S4 + bounded progress).
//  E3: 2-3 workers, one agent each, under the controlled scheduler (switches at every atomic access and lock operation):
//      bounded-preemption DFS over micro-scripts, PCT/random over longer scripts; same oracles over a logically timestamped log.
// Oracle (DESIGN.md Appendix B): S1 callback at most once, inside the registering agent's run(); S2 grace period: every agent
// certainly online at registration has an interval of quiescent_state/offline/quiescent_barrier overlapping (registration, callback);
// S4 the node is not touched by the library once its callback has started (the callback frees it: ASan); L bounded progress.
#define VERIF_SCHED_HOOK
#include "common/verif.hpp"
#include "common/sched.hpp"
#include <frg/qs.hpp>
#include <functional>
#include <map>
#include <set>

using namespace verif;

static uint64_t g_ts = 0;                 // logical clock (E1: event counter; E3: scheduler steps)
static uint64_t now() { return ++g_ts; } // events are logged by the thread holding the baton, so one counter orders them

struct Interval { uint64_t c, r; };
struct Reg { int agent; int node; uint64_t c, r; bool cb = false; uint64_t cb_t = 0; };
struct Log {
	std::map<int, std::vector<Interval>> on, off, qs, qb, run;   // per agent
	std::vector<Reg> regs;
	std::vector<std::string> problems;
	std::string text;
	void note(const std::string &s) { if(text.size() < 3000) text += s + " "; }
};
static Log *g_log = nullptr;
static int g_running_agent[8];           // per worker/thread slot: agent whose run() is active (-1 none)

struct Node {
	frg::qs_node qn;
	int id; int agent;
	bool rearm; // the callback registers a fresh node with the same agent (from inside run()), as a periodic reclamation task would
	bool flush; // the callback first calls run() on its own agent again (a teardown callback flushing what else is reclaimable)
};
static std::function<void(int)> g_flush;   // set by the driver: run() on the given agent
static bool g_flush_mode = false;          // await(.., rearm=true) also sets flush
static int g_flush_count = 0;
static std::function<void(int)> g_rearm;   // set by the driver: await_barrier(new node) on the given agent
static int g_rearm_count = 0;
struct NodeRef { int reg; struct Node *node; };
static std::map<frg::qs_node *, NodeRef> g_node_ids;  // live registered nodes -> (reg index, enclosing object)

template<typename M> struct AgentBox {
	frg::qs_agent<M> *ag = nullptr; bool online = false; int id; int pending = 0; uint64_t on_r = 0;
};

static void on_grace(frg::qs_node *qn) {
	uint64_t t = now();
	auto it = g_node_ids.find(qn);
	if(it == g_node_ids.end()) { g_log->problems.push_back("S1a|callback invoked for a node that is not registered (second invocation, or a stale node)"); return; }
	Reg &rg = g_log->regs[it->second.reg];
	Node *n = it->second.node;
	int slot = sched::t_me >= 0 ? sched::t_me : 0;
	if(rg.cb) g_log->problems.push_back("S1a|callback invoked twice for one registration");
	rg.cb = true; rg.cb_t = t;
	if(g_running_agent[slot] != rg.agent) g_log->problems.push_back(strf("S1b|callback of a node registered by agent %d runs %s", rg.agent, g_running_agent[slot] < 0 ? "outside any run()" : "inside another agent's run()"));
	g_log->note(strf("cb(n%d)@%llu", rg.node, (unsigned long long)t));
	g_node_ids.erase(it);
	bool rearm = n->rearm, flush = n->flush; int agent = rg.agent;
	// the library must not touch the node any more: give the memory back right now (ASan observes any later access)
	memset((void *)n, 0xEE, sizeof(Node));
	free(n);
	// (rg is not used below: the registration made here may reallocate the log)
	if(flush && g_flush) { g_flush_count++; g_flush(agent); }
	if(rearm && g_rearm) { g_rearm_count++; g_rearm(agent); }
}

// operations, logged at the API boundary. M is the domain's mutex type.
template<typename M>
struct Ops {
	frg::qs_domain<M> *dom;
	std::vector<AgentBox<M>> ag;
	int next_node = 0;
	bool refused_offline = false;

	void create_agent(int i) { // the constructor goes online
		uint64_t c = now(); ag[i].ag = new frg::qs_agent<M>(dom); uint64_t r = now();
		ag[i].online = true; ag[i].on_r = r; g_log->on[i].push_back({c, r}); g_log->note(strf("a%d.ctor", i));
	}
	void online(int i) { uint64_t c = now(); ag[i].ag->online(); uint64_t r = now(); ag[i].online = true; g_log->on[i].push_back({c, r}); g_log->note(strf("a%d.online", i)); }
	void offline(int i) {
		uint64_t c = now();
		try { ag[i].ag->offline(); }
		catch(const PanicStop &p) {
			// documented TODO: offline() of an agent that deferred a grace period asserts before changing any state
			if(strstr(p.msg, "!_qs_deferred")) { count("offline_refused_deferred"); g_log->note(strf("a%d.offline(refused)", i)); refused_offline = true; return; }
			throw;
		}
		uint64_t r = now(); ag[i].online = false; g_log->off[i].push_back({c, r}); g_log->note(strf("a%d.offline", i));
	}
	void qs(int i) { uint64_t c = now(); ag[i].ag->quiescent_state(); uint64_t r = now(); g_log->qs[i].push_back({c, r}); g_log->note(strf("a%d.qs", i)); }
	void barrier(int i) { sched::g_unscheduled_spins = 0; uint64_t c = now(); ag[i].ag->quiescent_barrier(); uint64_t r = now(); g_log->qb[i].push_back({c, r}); g_log->note(strf("a%d.barrier", i)); }
	void await(int i, bool rearm = false) {
		Node *n = (Node *)malloc(sizeof(Node)); new (n) Node(); n->id = next_node++; n->agent = i; n->rearm = rearm; n->flush = rearm && g_flush_mode; n->qn.on_grace_period = on_grace;
		uint64_t c = now();
		g_node_ids[&n->qn] = {(int)g_log->regs.size(), n};
		g_log->regs.push_back({i, n->id, c, 0});
		size_t ri = g_log->regs.size() - 1;
		ag[i].ag->await_barrier(&n->qn);
		g_log->regs[ri].r = now(); ag[i].pending++;
		g_log->note(strf("a%d.await(n%d%s)", i, n->id, rearm ? ",re-arming" : ""));
	}
	void run(int i) {
		int slot = sched::t_me >= 0 ? sched::t_me : 0;
		int outer = g_running_agent[slot]; // (run() may be entered from a callback of the same run())
		uint64_t c = now(); g_running_agent[slot] = i; ag[i].ag->run(); g_running_agent[slot] = outer; uint64_t r = now();
		g_log->run[i].push_back({c, r}); g_log->note(strf("a%d.run", i));
	}
	size_t pending_of(int i) const { size_t n = 0; for(auto &rg : g_log->regs) if(rg.agent == i && !rg.cb) n++; return n; }
};

// ---------------------------------------------------------------- offline oracle over the log
static void check_log(Log &L, int nagents, const std::string &ctx) {
	auto flag = [&](const std::string &key, const std::string &what) { case_detail("%s", (ctx + " :: " + L.text).substr(0, 3900).c_str()); violation("C11:qs:" + key, what + " [" + ctx + "]"); };
	for(auto &p : L.problems) { auto bar = p.find('|'); flag(p.substr(0, bar), p.substr(bar + 1)); }
	for(auto &rg : L.regs) {
		if(!rg.cb) continue;
		uint64_t t0 = rg.c, t1 = rg.cb_t;
		// S1b: inside a run() of the registering agent
		bool inside = false;
		for(auto &iv : L.run[rg.agent]) if(iv.c < t1 && t1 < iv.r) inside = true;
		if(!inside) flag("S1b-callback-outside-run", strf("callback of node %d did not run inside a run() call of its registering agent %d", rg.node, rg.agent));
		for(int x = 0; x < nagents; x++) {
			// was X certainly online when registration began?
			bool certainly = false;
			for(auto &on : L.on[x]) {
				if(on.r >= t0) continue;
				bool left = false;
				for(auto &of : L.off[x]) if(of.c > on.r && of.c < t0) left = true;
				if(!left) certainly = true;
			}
			if(!certainly) continue;
			bool passed = false;
			for(auto *set : {&L.qs[x], &L.qb[x], &L.off[x]}) for(auto &iv : *set) if(iv.c < t1 && iv.r > t0) passed = true;
			if(!passed) flag("S2-premature-callback", strf("callback of node %d (registered by agent %d at t=%llu) ran at t=%llu although agent %d, online at registration, has not been inside quiescent_state()/offline() since", rg.node, rg.agent, (unsigned long long)t0, (unsigned long long)t1, x));
		}
	}
	// quiescent_barrier: same condition for the other agents
	for(int a = 0; a < nagents; a++) for(auto &qb : L.qb[a]) {
		for(int x = 0; x < nagents; x++) {
			if(x == a) continue;
			bool certainly = false;
			for(auto &on : L.on[x]) { if(on.r >= qb.c) continue; bool left = false; for(auto &of : L.off[x]) if(of.c > on.r && of.c < qb.c) left = true; if(!left) certainly = true; }
			if(!certainly) continue;
			bool passed = false;
			for(auto *set : {&L.qs[x], &L.qb[x], &L.off[x]}) for(auto &iv : *set) if(iv.c < qb.r && iv.r > qb.c) passed = true;
			if(!passed) flag("S2-premature-barrier-return", strf("quiescent_barrier() of agent %d returned although agent %d has not been inside quiescent_state()/offline() meanwhile", a, x));
		}
	}
}

// ---------------------------------------------------------------- E1: whole-operation sequences by one thread
static int g_seqmx_held = 0;
struct SeqMx { // single-threaded mutex that detects misuse
	bool held = false;
	void lock() { if(held) { violation("C11:lock:relock-by-owner", "the domain mutex is locked again by the thread that already holds it: with a real mutex this call never returns"); throw PanicStop{"relock"}; } held = true; g_seqmx_held++; count("mutex_locks"); }
	void unlock() { if(!held) violation("C11:lock:unlock-of-free-mutex", "the domain mutex is unlocked although it is not held"); else g_seqmx_held--; held = false; }
};

static const int DRAIN_ROUNDS = 8;

static void e1_case(const char *mode, long long idx, int nagents, const std::vector<int> &opsq, bool &admissible) {
	begin_case(mode, idx);
	Log L; g_log = &L; g_ts = 0; g_node_ids.clear(); g_seqmx_held = 0;
	for(auto &x : g_running_agent) x = -1;
	// every fourth case starts the domain a few periods below 2^32 (verification-only constructor), so the run crosses the point
	// where a 32-bit intermediate would wrap
	uint64_t first_counter = (idx % 4 == 3) ? 0x100000000ull - 1 - (uint64_t)(idx % 5) : 1;
	if(first_counter != 1) count("e1_cases_across_2^32_periods");
	auto *dom = first_counter == 1 ? new frg::qs_domain<SeqMx>() : new frg::qs_domain<SeqMx>(first_counter);
	Ops<SeqMx> o; o.dom = dom; o.ag.resize(nagents);
	admissible = true;
	g_rearm = [&](int a) { o.await(a, false); }; g_rearm_count = 0;
	// in every other case the re-arming callbacks first flush their agent: run() entered again from inside run()
	g_flush = [&](int a) { o.run(a); }; g_flush_mode = (idx % 2 == 1); g_flush_count = 0;
	bool ok = guarded("C11", [&] {
		for(int i = 0; i < nagents; i++) { o.ag[i].id = i; o.create_agent(i); }
		for(int code : opsq) {
			int a = code % nagents, op = code / nagents;
			auto &A = o.ag[a];
			switch(op) {
			case 0: if(A.online) { admissible = false; return; } o.online(a); break;
			case 1: if(!A.online) { admissible = false; return; } o.offline(a); break;
			case 2: if(!A.online) { admissible = false; return; } o.qs(a); break;
			case 3: if(!A.online) { admissible = false; return; } o.await(a); break;
			case 4: o.run(a); break;
			case 5: { if(!A.online) { admissible = false; return; } int on = 0; for(auto &x : o.ag) on += x.online; if(on != 1) { admissible = false; return; } o.barrier(a); break; }
			case 6: if(!A.online) { admissible = false; return; } o.await(a, true); break; // the callback registers another node from inside run()
			}
		}
		// L: bounded progress. Every agent with pending callbacks goes online; then at most DRAIN_ROUNDS rounds of
		// "every online agent reports a quiescent state, every agent with pending callbacks calls run()".
		for(int i = 0; i < nagents; i++) if(!o.ag[i].online && o.pending_of(i)) o.online(i);
		int rounds = 0, budget = DRAIN_ROUNDS, seen_rearms = g_rearm_count;
		auto all_done = [&] { for(auto &rg : L.regs) if(!rg.cb) return false; return true; };
		while(!all_done() && rounds < budget) {
			rounds++;
			for(int i = 0; i < nagents; i++) if(o.ag[i].online) o.qs(i);
			for(int i = 0; i < nagents; i++) if(o.pending_of(i)) o.run(i);
			if(g_rearm_count != seen_rearms) { seen_rearms = g_rearm_count; budget = rounds + DRAIN_ROUNDS; } // a registration made by a callback gets its own rounds
		}
		if(!all_done()) { case_detail("%s", L.text.substr(0, 3900).c_str()); violation("C11:qs:L-grace-period-lost", strf("a registered callback was not invoked within %d rounds in which every online agent reported a quiescent state and the registering agent called run() [%s]", DRAIN_ROUNDS, L.text.substr(0, 600).c_str())); }
		count(strf("drain_rounds_needed_%d", rounds));
		if(g_seqmx_held) { violation("C11:qs:lock-left-held", "the domain mutex is still held after all operations returned"); g_seqmx_held = 0; }
	});
	(void)ok;
	if(admissible) check_log(L, nagents, mode);
	for(auto &kv : g_node_ids) free(kv.second.node);
	g_node_ids.clear();
	for(auto &a : o.ag) delete a.ag;
	delete dom;
	if(g_flush_count) count("callbacks_that_reentered_run", (uint64_t)g_flush_count);
	g_log = nullptr; g_rearm = nullptr; g_flush = nullptr; g_flush_mode = false;
}

static void e1_exhaustive(int nagents, unsigned depth) {
	std::string mode = strf("e1:exh:%dagents", nagents);
	if(!want_mode(mode.c_str())) return;
	const int NOPS = 7 * nagents;
	uint64_t total = 1; for(unsigned i = 0; i < depth; i++) total *= NOPS;
	for(uint64_t x = opt.shard; x < total; x += opt.nshards) {
		if(!want_case(x)) continue;
		std::vector<int> ops; uint64_t y = x;
		for(unsigned i = 0; i < depth; i++) { ops.push_back(y % NOPS); y /= NOPS; }
		bool adm;
		e1_case(mode.c_str(), x, nagents, ops, adm);
		if(adm) { note_distinct(mix(hash_str(mode), x)); count("e1_admissible_sequences"); }
	}
	rec.notes[mode] = strf("all admissible sequences of %u whole operations {online, offline, quiescent_state, await_barrier(new node), run, quiescent_barrier(single online agent), await_barrier(node whose callback registers another node)} over %d agents, each followed by the bounded-progress drain", depth, nagents);
}

static void e1_random(uint64_t n, unsigned maxlen) {
	if(!want_mode("e1:rand")) return;
	Rng sr(derive_seed("e1rand"));
	for(uint64_t i = 0; i < n; i++) {
		Rng r(sr.next());
		if(!want_case(i)) continue;
		int na = 1 + r.below(3);
		// build an admissible sequence by tracking the model state
		std::vector<int> ops; std::vector<bool> on(na, true);
		unsigned len = 1 + r.below(maxlen);
		for(unsigned k = 0; k < len; k++) {
			int a = r.below(na); int op;
			int cnt_on = 0; for(bool b : on) cnt_on += b;
			if(!on[a]) op = r.chance(1, 2) ? 0 : 4;
			else { int z = r.below(20); op = z < 2 ? 1 : z < 10 ? 2 : z < 13 ? 3 : z < 14 ? 6 : z < 19 ? 4 : (cnt_on == 1 ? 5 : 2); }
			if(op == 0) on[a] = true;
			if(op == 1) on[a] = false; // (a refused offline keeps the agent online; handled below by re-checking admissibility)
			ops.push_back(op * na + a);
		}
		bool adm;
		e1_case("e1:rand", i, na, ops, adm);
		note_distinct(mix(hash_str("e1rand"), sr.s[0] ^ i));
		count(adm ? "e1_admissible_sequences" : "e1_random_inadmissible");
	}
}

// ---------------------------------------------------------------- E3: agents on separate workers under the controlled scheduler
struct Script { std::vector<int> ops; };  // 0 qs, 1 await, 2 run, 3 offline, 4 online, 5 barrier
static const char *OPN3[] = {"qs", "await", "run", "offline", "online", "barrier"};

static void e3_run(const char *mode, long long idx, const std::vector<Script> &scripts, sched::Strategy &strat, bool *no_preempt_flag, uint64_t step_limit) {
	begin_case(mode, idx);
	int nw = (int)scripts.size();
	Log L; g_log = &L; g_ts = 0; g_node_ids.clear();
	for(auto &x : g_running_agent) x = -1;
	using M = sched::SchedMutex;
	// a third of the DFS spaces (fixed per space: every schedule of a space must replay the same program) and a quarter of the
	// random schedules start the domain just below 2^32 periods
	bool is_dfs = !strncmp(mode, "e3:dfs", 6);
	uint64_t first_counter = (is_dfs ? (hash_str(mode) % 3 == 0) : (idx % 4 == 3)) ? 0x100000000ull - 1 - (uint64_t)(hash_str(mode) % 3) : 1;
	if(first_counter != 1) count("e3_schedules_across_2^32_periods");
	auto *dom = first_counter == 1 ? new frg::qs_domain<M>() : new frg::qs_domain<M>(first_counter);
	Ops<M> o; o.dom = dom; o.ag.resize(nw);
	sched::g_smx = {};
	// agents are created (and go online) by the driver thread before the workers start
	for(int i = 0; i < nw; i++) { o.ag[i].id = i; o.create_agent(i); }
	int drain_arrived[DRAIN_ROUNDS + 2] = {0};
	bool liveness_failed = false; int in_drain = 0;
	std::string sdesc;
	for(int i = 0; i < nw; i++) { sdesc += strf("w%d:", i); for(int op : scripts[i].ops) sdesc += std::string(OPN3[op]) + ","; sdesc += " "; }
	sched::World w; w.step_limit = step_limit; w.keep_trace = true;
	std::vector<std::function<void()>> bodies;
	for(int i = 0; i < nw; i++) bodies.push_back([&, i] {
		for(int op : scripts[i].ops) {
			auto &A = o.ag[i];
			sched::yield_point("script.before_op", op);
			switch(op) {
			case 0: if(A.online) o.qs(i); break;
			case 1: if(A.online) o.await(i); break;
			case 2: o.run(i); break;
			case 3: if(A.online) o.offline(i); break;
			case 4: if(!A.online) o.online(i); break;
			case 5: if(A.online) o.barrier(i); break;
			}
		}
		// drain (bounded progress): rounds separated by a harness barrier so that "every online agent reported a quiescent state" holds per round
		if(++in_drain == nw && no_preempt_flag) *no_preempt_flag = true; // from here on only forced switches
		if(!o.ag[i].online) o.online(i);
		for(int round = 0; round < DRAIN_ROUNDS; round++) {
			o.qs(i);
			if(o.pending_of(i)) o.run(i);
			drain_arrived[round]++;
			// while waiting for the others to finish the round, the agent keeps reporting quiescent states (that is the premise
			// of the liveness clause: a worker stuck inside quiescent_barrier() depends on it)
			while(drain_arrived[round] < nw) { o.qs(i); sched::g_world->point("spin:harness.round_barrier", nullptr, round, true); }
		}
		if(o.pending_of(i)) liveness_failed = true;
	});
	sched::Outcome out = w.run(bodies, strat);
	count("e3_schedules");
	note_distinct(mix(hash_str(mode), mix(w.sig, hash_str(sdesc))));
	rec.counters["sched_points"] += w.steps; rec.counters["sched_switches"] += w.switches;
	{ static uint64_t max_steps = 0; if(out.kind == sched::Outcome::Ok && w.steps > max_steps) { max_steps = w.steps; rec.notes[std::string("max_points_in_a_completing_schedule:shard") + std::to_string(opt.shard)] = std::to_string(max_steps) + " (budget " + std::to_string(w.step_limit) + ")"; } }
	std::string tail; for(size_t k = w.trace.size() > 60 ? w.trace.size() - 60 : 0; k < w.trace.size(); k++) tail += w.trace[k] + " ";
	if(idx == 1) sample(std::string(mode) + " schedule #1, scripts{" + sdesc + "} event log: " + L.text.substr(0, 500) + " :: points: " + tail.substr(0, 600), 40);
	std::string ctx = std::string(mode) + " scripts{" + sdesc + "}";
	auto flag = [&](const std::string &key, const std::string &what) { case_detail("%s :: log: %s :: last points: %s", ctx.c_str(), L.text.substr(0, 1500).c_str(), tail.substr(0, 1800).c_str()); violation("C11:qs:" + key, what + " [" + ctx + "]"); };
	if(out.kind == sched::Outcome::Deadlock) flag("blocks-forever-deadlock", "a call can never return: " + out.detail);
	else if(out.kind == sched::Outcome::Livelock) flag("blocks-forever-livelock", "workers spin forever: " + out.detail);
	else if(out.kind == sched::Outcome::Panic) { if(out.detail.find("!_qs_deferred") != std::string::npos) count("offline_refused_deferred"); else flag("assert", "library assertion: " + out.detail); }
	else if(out.kind == sched::Outcome::StepLimit) flag("no-progress-step-budget", "a schedule did not finish within the step budget (far above any completing run) although waiting workers are de-scheduled: some call makes no progress: " + out.detail);
	else {
		if(liveness_failed) flag("L-grace-period-lost", strf("a registered callback was not invoked within %d rounds in which every agent reported a quiescent state and the registering agent called run()", DRAIN_ROUNDS));
		for(int i = 0; i < nw; i++) if(sched::g_smx.held.size() > (size_t)i && sched::g_smx.held[i]) flag("lock-left-held", "the domain mutex is still held after all operations returned");
	}
	if(out.kind == sched::Outcome::Ok || out.kind == sched::Outcome::Panic) check_log(L, nw, ctx);
	// memory of nodes never called back / agents / domain: released only after clean runs
	if(out.kind == sched::Outcome::Ok) { for(auto &kv : g_node_ids) free(kv.second.node); for(auto &a : o.ag) delete a.ag; delete dom; }
	g_node_ids.clear();
	g_log = nullptr;
}

struct GatedDfs : sched::Dfs { // no preemption once the drain phase has started
	bool no_preempt = false;
	explicit GatedDfs(int b) : sched::Dfs(b) {}
	void begin_run() override { sched::Dfs::begin_run(); no_preempt = false; }
	int pick(int me, bool me_enabled, const std::vector<int> &en, uint64_t step) override {
		// Decision points are the preemptions (bounded). Forced switches (the running worker blocked, parked in a wait loop or
		// finished) continue with the least recently run worker without branching: with two workers there is no choice anyway,
		// with three this keeps the space tractable. In the drain phase there are no preemptions at all.
		if(no_preempt || (!me_enabled && !(me < 0 && step == 0))) { // (the very first choice of a schedule does branch)
			if(me_enabled) return me;
			int best = en[0];
			for(int e : en) { if((int)last_run.size() <= e) last_run.resize(e + 1, 0); if(last_run[e] < last_run[best]) best = e; }
			last_run[best] = ++tick;
			return best;
		}
		return sched::Dfs::pick(me, me_enabled, en, step);
	}
};

static void e3_dfs(const std::string &tag, const std::vector<Script> &scripts, int bound, uint64_t max_runs) {
	std::string mode = "e3:dfs:" + tag;
	static unsigned index = 0;
	if(!want_mode(mode.c_str()) || (opt.mode.empty() && (index++ % opt.nshards) != opt.shard)) return;
	GatedDfs dfs(bound);
	long long i = 0; bool complete = false;
	do {
		e3_run(mode.c_str(), i, scripts, dfs, &dfs.no_preempt, 20000);
		i++;
		if(!rec.violations.empty()) break;
		if(!dfs.advance()) { complete = true; break; }
	} while((uint64_t)i < max_runs);
	rec.notes[mode] = strf("preemption bound %d during the scripted part: %lld schedules, %s", bound, i, complete ? "space exhausted" : "CUT SHORT at the run cap");
	count(complete ? "dfs_spaces_exhausted" : "dfs_spaces_cut_short");
}

static void e3_random(uint64_t n) {
	if(!want_mode("e3:pct")) return;
	Rng sr(derive_seed("e3pct"));
	for(uint64_t i = 0; i < n; i++) {
		uint64_t cs = sr.next();
		if(!want_case(i)) continue;
		Rng r(cs);
		int nw = 2 + r.below(2);
		std::vector<Script> sc(nw);
		for(auto &s : sc) { bool on = true; for(size_t k = 1 + r.below(7); k; k--) { int z = r.below(20); int op = z < 8 ? 0 : z < 12 ? 1 : z < 16 ? 2 : z < 18 ? (on ? 3 : 4) : (on ? 0 : 4); if(op == 3) on = false; if(op == 4) on = true; s.ops.push_back(op); } }
		if(r.chance(1, 6)) sc[0].ops.push_back(5); // one quiescent_barrier caller
		if(r.chance(1, 2)) { sched::Pct s(cs, 1 + r.below(3), 60 * nw); e3_run("e3:pct", i, sc, s, nullptr, 100000); }
		else { sched::RandomWalk s(cs, 1, 2 + r.below(5)); e3_run("e3:pct", i, sc, s, nullptr, 100000); }
	}
}

int main(int argc, char **argv) {
	parse_args(argc, argv, "c11_qs");
	sched::g_lock_prop = "C11";
	rec.rule = "E1: a case is one admissible sequence of whole operations over 1-3 agents owned by one thread, followed by the bounded-progress drain; E3: one schedule of 2-3 workers (one agent each) running short scripts, "
		"context switches at every atomic access / mutex operation of qs.hpp; the event log is checked for S1 (once, inside the registrant's run()), S2 (grace period), S4 (node freed by its callback, ASan), L (callback within 8 rounds); distinct = sequence index / schedule signature";
	bool t = opt.thorough();
	e1_exhaustive(1, t ? 9 : 7);
	e1_exhaustive(2, t ? 6 : 5);
	e1_exhaustive(3, t ? 5 : 4);
	e1_random(scaled(3000, 100000), t ? 200 : 60);
	// E3 micro-scenarios
	int b = t ? 4 : 3; uint64_t cap = t ? 1000000 : 40000;
	e3_dfs("await||qs", {{{1, 0, 2}}, {{0, 0}}}, b, cap);
	e3_dfs("await||qs,qs,qs", {{{1, 2}}, {{0, 0, 0}}}, b, cap);
	e3_dfs("last-acker-vs-await", {{{0, 1}}, {{0, 1}}}, b, cap);
	e3_dfs("qs,await||qs,await", {{{0, 0, 1}}, {{1, 0}}}, b, cap);
	e3_dfs("join-mid-period", {{{1, 0, 2}}, {{3, 4, 0}}}, b, cap);
	e3_dfs("leave-mid-period", {{{1, 0, 0, 2}}, {{0, 3}}}, b, cap);
	e3_dfs("deferred-restart", {{{0, 0, 1, 0}}, {{0, 0}}}, b, cap);
	e3_dfs("two-registrations", {{{1, 1, 0, 2}}, {{0, 1, 2}}}, b, cap);
	// two registrations race while the period requested by an earlier one completes in between (the registrations then compute
	// different targets and both must get their target into the desired counter)
	e3_dfs("await,qs,await||qs,await", {{{1, 0, 1, 2}}, {{0, 1, 2}}}, b, cap);
	e3_dfs("await,qs,await||qs,qs,await", {{{1, 0, 1}}, {{0, 0, 1}}}, b, cap);
	e3_dfs("await,qs,barrier||qs,await", {{{1, 0, 5}}, {{0, 1, 0, 0}}}, b, cap);
	// the whole family {qs,await}^4 || {qs,await}^2 (thorough: ^4 || ^3): whatever combination of acknowledgements and
	// registrations a defect needs (e.g. two registrations computing different targets around a period that completes in
	// between), it is one of these spaces
	for(unsigned la = 0; la < 16; la++) for(unsigned lb = 0; lb < (t ? 8u : 4u); lb++) {
		Script A, B; std::string tag;
		for(int k = 0; k < 4; k++) { int op = (la >> k) & 1; A.ops.push_back(op); tag += op ? 'a' : 'q'; }
		tag += "||";
		for(int k = 0; k < (t ? 3 : 2); k++) { int op = (lb >> k) & 1; B.ops.push_back(op); tag += op ? 'a' : 'q'; }
		if(la == 0 && lb == 0) continue; // nothing registered
		e3_dfs("family:" + tag, {A, B}, t ? 3 : 2, t ? 300000 : 40000);
	}
	e3_dfs("barrier||qs", {{{5}}, {{0, 0, 0}}}, b, cap);
	e3_dfs("3agents", {{{1, 0}}, {{0}}, {{0, 3}}}, t ? 3 : 2, t ? 2000000 : cap);
	e3_random(scaled(500, 20000));
	sample("e1:exh:2agents x=123456: a0.ctor a1.ctor a0.await(n0) a1.qs a0.offline a1.qs a0.run ... then drain: [every online agent qs; pending agents run] <= 8 rounds");
	sample("e3:dfs:last-acker-vs-await: workers {qs, await} || {qs, await}; every schedule with <= 2 preemptions before the drain; switches at qs.qs.load_counter / qs.qs.ack / qs.qs.load_desired / qs.barrier.cas_desired / mutex.lock ...");
	return finish();
}
