// C10 (E3): rcu_radixtree with one writer and concurrent finders under the controlled scheduler.
// Context switches happen at every atomic load/store of find / find_or_insert / erase (hook sites) and between value
// construction and publication. Oracle per find(k): the writer's operations on k are intervals on one logical clock;
//   key present during the whole find  => result is the address recorded at insertion, fully initialised, key field == k
//   key absent during the whole find   => result is null
//   otherwise                          => null or a fully initialised value stored under k
#define VERIF_SCHED_HOOK
#include "common/verif.hpp"
#include "common/sched.hpp"
#include "common/track.hpp"
#include <frg/rcu_radixtree.hpp>
#include <map>

using namespace verif;

struct Val {
	uint64_t key, version, check; // plain fields
	Val(uint64_t k, uint64_t v) : key(k), version(v), check(mix(k, v)) {}
#ifndef C10_TRIVIAL_VALUE // (the drivers are built twice: a trivially destructible payload takes other `if constexpr` paths of a container than one with a destructor)
	~Val() { check = 0xDEADDEADDEADDEADull; key = ~key; } // the end of the value's lifetime is observable: plain stores (a reader that can still reach the value races with them / sees a value that is not intact)
#endif
	bool intact() const { return check == mix(key, version); }
};

// allocator: exact-size blocks filled with junk, so that a node or value that is reachable before it was initialised
// is seen as garbage by the reader (deterministically) instead of as zeros
struct JunkAlloc {
	void *allocate(size_t n) { void *p = malloc(n); memset(p, 0xCD, n); return p; }
	void deallocate(void *p, size_t) { free(p); }
	void free(void *p) { ::free(p); }
};
using Tree = frg::rcu_radixtree<Val, JunkAlloc>;

struct WOp { bool insert; uint64_t key; };
struct WEv { bool insert; uint64_t key; uint64_t c, r; Val *addr; uint64_t version; };
struct FEv { int reader; uint64_t key; uint64_t c, r; Val *res; bool res_intact; uint64_t res_key, res_version; };

static uint64_t g_ts;
static uint64_t now() { return ++g_ts; }

static const uint64_t B = 0x123456789ABCDEF0ull;

static void run_world(const char *mode, long long idx, const std::vector<WOp> &wscript, const std::vector<std::vector<uint64_t>> &rscripts, sched::Strategy &strat, const std::vector<WOp> &prefill) {
	begin_case(mode, idx);
	g_ts = 0;
	Tree *tree = new Tree();
	std::vector<WEv> wlog; std::vector<FEv> flog;
	uint64_t version = 1;
	// prefill by the driver thread (no concurrency): logged as completed operations at time 0
	for(auto &op : prefill) { if(op.insert) { Val *p = tree->insert(op.key, op.key, version); wlog.push_back({true, op.key, 0, 0, p, version}); version++; } else { tree->erase(op.key); wlog.push_back({false, op.key, 0, 0, nullptr, 0}); } }
	std::string sdesc = "writer:";
	for(auto &op : wscript) sdesc += strf("%s(%llx),", op.insert ? "ins" : "erase", (unsigned long long)op.key);
	for(size_t r = 0; r < rscripts.size(); r++) { sdesc += strf(" reader%zu:", r); for(auto k : rscripts[r]) sdesc += strf("find(%llx),", (unsigned long long)k); }
	sched::World w; w.step_limit = 50000; w.keep_trace = true;
	std::vector<std::function<void()>> bodies;
	bodies.push_back([&] {
		for(auto &op : wscript) {
			sched::yield_point("writer.before_op");
			uint64_t c = now();
			if(op.insert) { uint64_t v = version++; Val *p = tree->insert(op.key, op.key, v); wlog.push_back({true, op.key, c, now(), p, v}); }
			else { tree->erase(op.key); wlog.push_back({false, op.key, c, now(), nullptr, 0}); }
		}
	});
	for(size_t r = 0; r < rscripts.size(); r++) bodies.push_back([&, r] {
		for(uint64_t k : rscripts[r]) {
			sched::yield_point("reader.before_find");
			uint64_t c = now();
			Val *res = tree->find(k);
			FEv e{(int)r, k, c, 0, res, false, 0, 0};
			if(res) { e.res_key = res->key; e.res_version = res->version; e.res_intact = res->intact(); } // plain reads of the value
			e.r = now();
			flog.push_back(e);
		}
	});
	sched::Outcome out = w.run(bodies, strat);
	count("schedules");
	note_distinct(mix(hash_str(mode), mix(w.sig, hash_str(sdesc))));
	rec.counters["sched_points"] += w.steps; rec.counters["sched_switches"] += w.switches;
	{ static uint64_t max_steps = 0; if(out.kind == sched::Outcome::Ok && w.steps > max_steps) { max_steps = w.steps; rec.notes[std::string("max_points_in_a_completing_schedule:shard") + std::to_string(opt.shard)] = std::to_string(max_steps) + " (budget " + std::to_string(w.step_limit) + ")"; } }
	std::string tail; for(size_t k = w.trace.size() > 50 ? w.trace.size() - 50 : 0; k < w.trace.size(); k++) tail += w.trace[k] + " ";
	if(idx == 1) sample(std::string(mode) + " schedule #1, {" + sdesc + "} observed points: " + tail.substr(0, 900), 40);
	auto flag = [&](const std::string &key, const std::string &what) { case_detail("%s :: last points: %s", sdesc.c_str(), tail.substr(0, 2500).c_str()); violation("C10:radix:" + key, what + " [" + sdesc + "]"); };
	if(out.kind == sched::Outcome::Panic) flag("assert", "library assertion: " + out.detail);
	else if(out.kind == sched::Outcome::Deadlock || out.kind == sched::Outcome::Livelock) flag("blocked", out.detail);
	else if(out.kind == sched::Outcome::StepLimit) flag("no-progress-step-budget", "a schedule did not finish within the step budget (far above any completing run): " + out.detail);
	else {
		for(auto &f : flog) {
			count("finds_checked");
			// state of key f.key over [f.c, f.r]
			bool overlap = false; const WEv *last_before = nullptr;
			for(auto &e : wlog) { if(e.key != f.key) continue; if(e.r < f.c) { if(!last_before || e.r >= last_before->r) last_before = &e; } else if(e.c <= f.r) overlap = true; }
			bool present_before = last_before && last_before->insert;
			if(f.res) {
				if(!f.res_intact) { flag("partial-value", strf("find(%llx) returned a value that is not fully initialised (key=%llx version=%llx)", (unsigned long long)f.key, (unsigned long long)f.res_key, (unsigned long long)f.res_version)); break; }
				if(f.res_key != f.key) { flag("wrong-key", strf("find(%llx) returned the value stored under %llx", (unsigned long long)f.key, (unsigned long long)f.res_key)); break; }
				bool ever_inserted = false; for(auto &e : wlog) if(e.insert && e.key == f.key && e.c <= f.r && e.addr == f.res) ever_inserted = true;
				if(!ever_inserted) { flag("unknown-value", strf("find(%llx) returned an address that no insert of this key produced", (unsigned long long)f.key)); break; }
				if(!overlap && !present_before) { flag("found-absent-key", strf("find(%llx) returned a value although the key was absent during the whole call", (unsigned long long)f.key)); break; }
				count("finds_nonnull");
			} else {
				if(!overlap && present_before) { flag("lost-present-key", strf("find(%llx) returned null although the key was present before the call began and was not erased during it", (unsigned long long)f.key)); break; }
				count("finds_null");
			}
			if(overlap) count("finds_overlapping_a_write");
		}
	}
	if(out.kind == sched::Outcome::Ok) delete tree;
}

struct Scenario { const char *name; std::vector<WOp> prefill, writer; std::vector<std::vector<uint64_t>> readers; };

static std::vector<Scenario> scenarios() {
	uint64_t Br = B ^ (0x8ull << 60);   // differs from B at the most significant nibble: split at the root (depth 0)
	uint64_t Bd = B ^ (0x8ull << 8);    // differs at nibble 13: split deep below
	uint64_t Bm = B ^ (0x8ull << 32);   // differs at nibble 7
	return {
		{"empty-tree-first-insert", {}, {{true, B}}, {{B, B}}},
		{"same-leaf-slot", {{true, B}}, {{true, B + 1}, {true, B + 2}}, {{B + 1, B, B + 2}}},
		{"split-at-root", {{true, B}}, {{true, Br}}, {{B, Br, B}}},
		{"split-deep", {{true, B}}, {{true, Bd}}, {{B, Bd, B}}},
		{"split-middle-then-below", {{true, B}}, {{true, Bm}, {true, Bd}}, {{B, Bd, Bm}}},
		{"three-cases", {}, {{true, B}, {true, B + 1}, {true, Br}}, {{B, B + 1, Br}}},
		{"leaf-into-inner", {{true, B}, {true, Br}}, {{true, B ^ (0x4ull << 60)}}, {{B ^ (0x4ull << 60), B, Br}}},
		{"erase-while-reading", {{true, B}, {true, B + 1}}, {{false, B}, {true, B + 2}}, {{B, B + 1, B}}},
		{"erase-reinsert-other", {{true, B}, {true, Bd}}, {{false, Bd}, {true, Bm}}, {{Bd, B, Bm}}},
		{"two-readers-split", {{true, B}}, {{true, Bm}, {true, Br}}, {{B, Bm}, {Br, B}}},
	};
}

int main(int argc, char **argv) {
	parse_args(argc, argv, "c10_radix");
	rec.rule = "a case is one schedule of a single writer (insert/erase script) and 1-2 finders; context switches only at the atomic accesses of the tree and between value construction and publication; "
		"every find result is checked against the writer's logged operation intervals; distinct = (scenario, schedule signature)";
	bool t = opt.thorough();
	auto sc = scenarios();
	unsigned di = 0;
	for(auto &s : sc) {
		std::string mode = std::string("dfs:") + s.name;
		if(!want_mode(mode.c_str()) || (opt.mode.empty() && (di++ % opt.nshards) != opt.shard)) continue;
		sched::Dfs dfs(t ? 4 : 3);
		long long i = 0; bool complete = false; uint64_t cap = t ? 1000000 : 60000;
		do {
			run_world(mode.c_str(), i, s.writer, s.readers, dfs, s.prefill);
			i++;
			if(!rec.violations.empty()) break;
			if(!dfs.advance()) { complete = true; break; }
		} while((uint64_t)i < cap);
		rec.notes[mode] = strf("preemption bound %d: %lld schedules, %s", t ? 4 : 3, i, complete ? "space exhausted" : "CUT SHORT at the run cap");
		count(complete ? "dfs_spaces_exhausted" : "dfs_spaces_cut_short");
	}
	if(want_mode("pct")) {
		Rng sr(derive_seed("pct"));
		uint64_t n = scaled(600, 20000);
		for(uint64_t i = 0; i < n; i++) {
			uint64_t cs = sr.next();
			if(!want_case(i)) continue;
			Rng r(cs);
			// random scripts over a small adversarial key pool
			std::vector<uint64_t> pool = {B, B + 1, B + 15, B ^ (0x8ull << 60), B ^ (0x4ull << 60), B ^ (0x8ull << 8), B ^ (0x8ull << 32), B ^ (0x8ull << 4), 0, ~0ull};
			std::map<uint64_t, bool> present;
			std::vector<WOp> prefill, ws;
			for(size_t k = r.below(4); k; k--) { uint64_t key = pool[r.below(pool.size())]; if(!present[key]) { prefill.push_back({true, key}); present[key] = true; } }
			std::map<uint64_t, bool> erased_once;
			for(size_t k = 2 + r.below(6); k; k--) { uint64_t key = pool[r.below(pool.size())]; if(present[key]) { if(r.chance(1, 3)) { ws.push_back({false, key}); present[key] = false; erased_once[key] = true; } } else if(!erased_once[key]) { ws.push_back({true, key}); present[key] = true; } }
			// (a key is never re-inserted after an erase inside one run: that would need a grace period, which is the client's job)
			int nr = 1 + r.below(3);
			std::vector<std::vector<uint64_t>> rs(nr);
			for(auto &s : rs) for(size_t k = 1 + r.below(6); k; k--) s.push_back(pool[r.below(pool.size())]);
			if(r.chance(1, 2)) { sched::Pct s(cs, 1 + r.below(3), 30 * (nr + 1)); run_world("pct", i, ws, rs, s, prefill); }
			else { sched::RandomWalk s(cs, 1, 2 + r.below(4)); run_world("pct", i, ws, rs, s, prefill); }
		}
	}
	sample("dfs:split-at-root: tree {B}; writer inserts B^(8<<60) (new inner node at depth 0 above the old root) || reader find(B), find(B^(8<<60)), find(B); all schedules with <= 3 preemptions at radix.find.load_root / load_link / load_mask / radix.insert.publish_inner ...");
	return finish();
}
